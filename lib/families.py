"""Grammar-family checks: TLC enumerates every grammar of a family (MCGram.tla), judges it with the
declarative specification and prints vectors; the harness replays them into the library."""
import json, os, hashlib, itertools, random, time
from yvlib import *

# ---------------------------------------------------------------------------- ownership of mismatch kinds
def owner(what, cfg, calls=0):
    """Which property a harness mismatch belongs to (cfg = 'la,one,cost,rec,match,dbg,mem')."""
    parts = cfg.split(",") if cfg and cfg[0].isdigit() or cfg.startswith("-") else None
    one = cost = rec = None
    if parts and len(parts) >= 7:
        one, cost, rec = int(parts[1]), int(parts[2]), int(parts[3])
    w = what
    if w.startswith("TERM attribute") and calls > 0:
        return "C07"      # tree of a recovered parse
    if w.startswith("cache:"):
        return "C09"
    if w.startswith(("parse_free", "parse_alloc", "terminal callback", "reachable node")):
        return "C13"
    if w.startswith("library heap blocks"):
        return "C14"
    if w.startswith(("definition return code",)):
        return "C10"
    if w.startswith(("error_code", "error message")):
        return "C15"
    if w.startswith("parse on undefined/bad grammar"):
        return "C10"
    if w.startswith("ambiguous_p"):
        return "C05"
    if w.startswith(("first error token", "error token", "recovery arguments", "recovery range", "first-ignored", "first-recovered", "error tokens")):
        return "C06"
    if w.startswith("ignored tokens of the first recovery"):
        return "C08"
    if w.startswith(("root with recovery on", "tree after recovery")):
        return "C07"
    if w.startswith(("parse rc", "syntax_error calls", "root for")):
        return "C01"
    if w.startswith(("denoted tree is not of minimal", "minimal translation missing", "alternatives with different costs")):
        return "C04"
    if w.startswith(("translation missing", "tree has a cycle", "ALT node as alternative")):
        return "C03"
    if w.startswith(("ALT nodes with one_parse", "denoted trees with one_parse")):
        return "C02"      # structure of a one-parse result, whatever the cost flag
    if w.startswith(("denoted", "more denoted", "NIL node", "ERROR node", "TERM attribute", "NULL child")):
        if cost:
            return "C04"
        return "C02" if one else "C03"
    return "C12"


def owners(what, cfg, calls=0):
    """All properties a mismatch belongs to: the primary one and, for a one-parse result under the cost flag that is not a translation
    at all, C02 as well (C02 speaks about the single returned tree whatever the cost flag; C04 about its minimality)."""
    o = {owner(what, cfg, calls)}
    parts = cfg.split(",") if cfg and (cfg[0].isdigit() or cfg.startswith("-")) else None
    if parts and len(parts) >= 7 and int(parts[1]) and what.startswith(("denoted tree is not a translation", "NIL node", "ERROR node", "TERM attribute", "NULL child")) \
            and not (what.startswith("TERM attribute") and calls > 0):
        o.add("C02")
    return o


def gid_of(vec):
    if vec.get("id"):
        return str(vec["id"])
    key = vec["rules"] if not ("terms" in vec and isinstance(vec["terms"], list) and (not vec["terms"] or isinstance(vec["terms"][0], dict))) else [vec["terms"], vec["rules"]]
    return hashlib.sha1(json.dumps(key, sort_keys=True).encode()).hexdigest()[:12]


def mcgram_cfg(terms, nts, maxrules, maxrhs, maxlen, useerr, variants, trees, invariants=("Emit",), recov=0):
    return """SPECIFICATION Spec
CONSTANTS
  Terms = {%s}
  NTs = {%s}
  MaxRules = %d
  MaxRhs = %d
  MaxLen = %d
  UseErr = %s
  Variants = {%s}
  EmitTrees = %s
  Recov = %d
INVARIANTS %s
CHECK_DEADLOCK FALSE
""" % (",".join(map(str, terms)), ",".join(map(str, nts)), maxrules, maxrhs, maxlen,
       "TRUE" if useerr else "FALSE", ",".join(map(str, variants)), "TRUE" if trees else "FALSE", recov, " ".join(invariants))


def blocks_from_vector(vec, configs, codemap="ascii", define_only=False, mems=(0,), max_cases=None, with_fo=True,
                       want_trees=True, extra_x="", text_hex=None):
    """One harness block for a vector.  configs: list of (la, one, cost, rec, match, dbg)."""
    code = CODEMAPS[codemap]
    g = gid_of(vec)
    lines = ["G " + g]
    if "terms" in vec and isinstance(vec["terms"], list) and (not vec["terms"] or isinstance(vec["terms"][0], dict)):
        terms = [t["n"] for t in vec["terms"]]
        tokcode = {t["n"]: (code(t["c"]) if t["c"] > 0 else t["c"]) for t in vec["terms"]}
        for t in vec["terms"]:
            lines.append("T %s %d" % (tname(t["n"]), tokcode[t["n"]]))
        base = code
        code = lambda k: tokcode.get(k, base(k))
    else:
        terms = sorted({s for r in vec["rules"] for s in r["r"] if is_term_name(s)} | set(vec.get("terms", [1, 2])))
        for t in terms:
            lines.append("T %s %d" % (tname(t), code(t)))
    for r in vec["rules"]:
        lines.append(rule_line(r, null_empty=bool(vec.get("null_empty"))))
    dn, ds = vec["dn"], vec["ds"]
    if define_only:
        # C10: both strictness levels, each followed by a parse that must be refused when the definition failed
        for strict, d in ((1, ds), (0, dn)):
            if text_hex is not None:
                lines.append("DT %d %s %s" % (strict, ",".join(map(str, d)) if d else "0", text_hex))
            else:
                lines.append("D %d %s" % (strict, ",".join(map(str, d)) if d else "0"))
            if d:   # a failed definition leaves an object that refuses to parse
                lines.append("W probe 1 %d" % (code(terms[0]) if terms else 97))
                lines.append("X sent=-1")
                lines.append("P 1 1 0 1 3 0 1")
        return lines
    if dn:
        return None
    strict = 0 if ds else 1
    lines.append(("DT %d 0 %s" % (strict, text_hex)) if text_hex is not None else ("D %d 0" % strict))
    cases = vec["cases"]
    if max_cases is not None and len(cases) > max_cases:
        cases = cases[:max_cases]
    k = 0
    for c in cases:
        w = c["w"]
        lines.append("W %s %d %s" % ("".join(map(str, w)) or "e", len(w), " ".join(str(code(t)) for t in w)))
        trees = c.get("trs") if want_trees else None
        have = 1 if (trees is not None and c["sent"] and vec.get("trees_emitted")) else 0
        if any(t not in terms for t in w):
            # a token that the denoted definition does not declare: YAEP_INVALID_TOKEN_CODE (C15)
            lines.append("X sent=-1 rc=17")
            for cfg in configs[:2]:
                lines.append("P %d %d %d %d %d %d %d" % (cfg + (mems[k % len(mems)],)))
                k += 1
            continue
        x = "X sent=%d nd=%d" % (1 if c["sent"] else 0, c["nd"] if c["sent"] else -1)
        if with_fo and not ds and not c["sent"]:
            x += " fo=%d" % c["fo"]
        if have:
            x += " nt=%d trees=1" % min(2, len(trees))
        if c.get("rv"):
            x += "".join(" rc%d_%d=%d" % (k, i + 1, v) for k, row in enumerate(c["rv"][0]["rcs"]) for i, v in enumerate(row) if v >= 0)
        lines.append(x + extra_x)
        if have:
            mins = {json.dumps(t) for t in c.get("mins", [])}
            for t in trees:
                lines.append(("m " if json.dumps(t) in mins else "t ") + canon_tree(t, code))
        for cfg in configs:
            lines.append("P %d %d %d %d %d %d %d" % (cfg + (mems[k % len(mems)],)))
            k += 1
    return lines


def full_matrix(las=(0, 1, 2), ones=(0, 1), costs=(0, 1), recs=(0, 1), matches=(3,), dbgs=(0,)):
    return [c for c in itertools.product(las, ones, costs, recs, matches, dbgs)]


def nontrivial_grammar(vec):
    """A grammar is counted as non-trivial if it is accepted and has a nullable symbol, a recursive
    symbol or at least two rules for one nonterminal (so derivations are not a straight line)."""
    rules = vec["rules"]
    if vec["dn"]:
        return False
    lhs = [r["l"] for r in rules]
    if len(set(lhs)) < len(lhs):
        return True
    for r in rules:
        if not r["r"] or any(s >= 10 for s in r["r"]):
            return True
    return False


def mcdef_cfg(names, codes, maxterms, lhs, rhs, maxrhs, maxrules, variants):
    """Configuration of MCDef.tla; negative numbers cannot be written in a cfg file, so the sets are passed as definitions
    of a generated module-level operator: see MCDEF_SETS."""
    return """SPECIFICATION SpecM
CONSTANTS
  TermNamesM <- %s
  TermCodesM <- %s
  MaxTerms = %d
  LhsM <- %s
  RhsM <- %s
  MaxRhs = %d
  MaxRules = %d
  VariantsM = {%s}
INVARIANTS EmitM
CHECK_DEADLOCK FALSE
""" % (names, codes, maxterms, lhs, rhs, maxrhs, maxrules, ",".join(map(str, variants)))


def run_family(res, scratch, tag, cfg_text, make_blocks, libs=("c",), builds=None, timeout=1500, tlc_workers=None,
               sample_every=None, mine=None, harness_args=(), module="MCGram"):
    """TLC run + replay.  make_blocks(vec) -> list of lines or None.  mine(record) -> key or None tells whether a
    mismatch belongs to the property being checked."""
    t = run_tlc(scratch, module, cfg_text, tag, timeout=timeout, workers=tlc_workers)
    if t["status"] == "violation":
        res.violation("spec-invariant:" + tag, {"tlc_tail": t["tail"][-2500:]})
    elif t["status"] != "ok":
        raise Infra("TLC %s: %s\n%s" % (tag, t["status"], t["tail"][-3000:]))
    res.add_tlc(t)
    blocks, vecs = [], {}
    nvec = nacc = nnt = 0
    for vec in tlc_vectors(t["out"]):
        nvec += 1
        vec["trees_emitted"] = "EmitTrees = TRUE" in cfg_text
        b = make_blocks(vec)
        if b is None:
            continue
        nacc += 1
        if nontrivial_grammar(vec):
            nnt += 1
        g = b[0][2:]
        vecs[g] = vec
        blocks.append(b)
        if len(res.cov["samples"]) < 3 and nontrivial_grammar(vec):
            res.cov["samples"].append({"family": tag, "grammar": [rule_line(r) for r in vec["rules"]],
                                       "harness_block_head": b[:12]})
    res.notes.setdefault("families", []).append({"tag": tag, "vectors": nvec, "replayed_grammars": nacc,
                                                 "tlc_distinct_states": t["distinct"], "tlc_wall_s": round(t["wall"], 1)})
    res.cov["distinct_nontrivial"] += nnt
    if module == "MCGram" and t["distinct"] and nvec < t["distinct"] - 1:
        raise Infra("TLC printed %d vectors for %d states (%s)" % (nvec, t["distinct"], tag))
    for lib in libs:
        for bdir in builds:
            binary = os.path.join(bdir, "yv_replay" + ("xx" if lib == "c++" else ""))
            recs, st = run_harness(binary, blocks, args=harness_args)
            parses = 0
            for r in recs:
                if r.get("k") == "summary":
                    parses += r["parses"] + r["defs"]
                    for key in ("hits", "sets", "recs", "trees"):
                        res.notes[key] = res.notes.get(key, 0) + r.get(key, 0)
                elif r.get("k") == "mismatch":
                    key = mine(r)
                    rec = dict(r, build=os.path.basename(bdir), vector=vecs.get(r.get("g")))
                    if key:
                        res.violation(key, rec)
                    else:
                        res.notes["other_property_mismatches"] = res.notes.get("other_property_mismatches", 0) + 1
                elif r.get("e") == "Abort":
                    blk = r.get("block")
                    g = blk[0][2:] if blk else None
                    res.violation(abort_key(r), dict(r, build=os.path.basename(bdir), vector=vecs.get(g)))
            res.cov["evaluations"] += parses
            res.cov["traces_validated_against_impl"] += len(blocks)
    return vecs


def abort_key(r):
    at = r.get("at", "")
    phase = at.split(" ")[0] if at else "unknown"
    return "abort:%s:sig%s" % (phase, r.get("sig"))


def mismatch_key(r):
    return "%s|%s" % (owner(r["what"], r["cfg"], r.get("calls", 0)), r["what"])


# ---------------------------------------------------------------------------- trace validation of parse events
def run_trace_family(res, scratch, tag, cfg_text, matrix, builds, props, libs=("c",), codemap="ascii",
                     timeout=1500, max_cases=None, pair_cost=False, chunk=4000, classify=None):
    """TLC enumerates the family (vectors carry the grammar only), the harness parses every input and
    records one trace line per parse, and TLC validates the lines against ParseTrace.tla.  A rejected
    line is a violation of each property in `props` named by a violated clause."""
    import concurrent.futures as cf
    t = run_tlc(scratch, "MCGram", cfg_text, tag, timeout=timeout)
    if t["status"] != "ok":
        raise Infra("TLC %s: %s\n%s" % (tag, t["status"], t["tail"][-3000:]))
    res.add_tlc(t)
    code = CODEMAPS[codemap]
    blocks, vecs = [], {}
    for vec in tlc_vectors(t["out"]):
        vec["trees_emitted"] = False
        b = blocks_from_vector(vec, matrix, codemap=codemap, mems=(0, 1), want_trees=False, max_cases=max_cases)
        if b is None:
            continue
        vecs[b[0][2:]] = vec
        blocks.append(b)
    lines = []
    for lib in libs:
        for bdir in builds:
            binary = os.path.join(bdir, "yv_replay" + ("xx" if lib == "c++" else ""))
            recs, st = run_harness(binary, blocks, args=("-t",))
            for r in recs:
                if r.get("e") == "Abort":
                    blk = r.get("block")
                    res.violation(abort_key(r), dict(r, vector=vecs.get(blk[0][2:] if blk else None)))
                if r.get("k") != "parse":
                    continue
                vec = vecs.get(r["g"])
                if vec is None:
                    continue
                terms = sorted({s for rl in vec["rules"] for s in rl["r"] if is_term_name(s)} | {1, 2})
                c2n = {code(k): k for k in terms}
                try:
                    trees = [parse_canon(s, c2n) for s in r["trees"]]
                except Exception as ex:
                    res.violation("C12|unparsable tree from harness", dict(r, err=str(ex)))
                    continue
                lines.append({"id": "%s/%s/%d,%d,%d,%d,%d/%s" % (r["g"], r["w"], r["la"], r["one"], r["cost"], r["rec"], r["match"], lib),
                              "terms": terms, "rules": vec["rules"], "sa": 0 if vec["ds"] else 1,
                              "w": [c2n.get(c, -99) for c in r["toks"]], "la": r["la"], "one": r["one"], "cost": r["cost"],
                              "rec": r["rec"], "match": r["match"], "rc": r["rc"], "root": r["root"], "amb": r["amb"],
                              "mp1": r.get("mp1", 0), "mp2": r.get("mp2", 0),
                              "calls": r["calls"], "trees": trees, "over": r["over"], "_g": r["g"]})
    if pair_cost:
        # attach the all-parses, cost-off result of the same (grammar, input, la, rec, match) to the cost-on lines
        base = {}
        for ln in lines:
            if ln["cost"] == 0 and ln["one"] == 0 and ln["over"] == 0:
                base[(ln["_g"], tuple(ln["w"]), ln["la"], ln["rec"], ln["match"], ln["id"].rsplit("/", 1)[1])] = ln["trees"]
        for ln in lines:
            if ln["cost"] == 1:
                b = base.get((ln["_g"], tuple(ln["w"]), ln["la"], ln["rec"], ln["match"], ln["id"].rsplit("/", 1)[1]))
                if b is not None:
                    ln["trees0"] = b
    chunks = [lines[i:i + chunk] for i in range(0, len(lines), chunk)]

    def work(args):
        i, ch = args
        return validate_trace(scratch, "ParseTrace", [{k: v for k, v in ln.items() if k != "_g"} for ln in ch], "%s_tr%d" % (tag, i), timeout=timeout), ch
    nrej = 0
    with cf.ThreadPoolExecutor(max_workers=max(1, NCPU // 2)) as ex:
        for (ok, rej, tt), ch in ex.map(work, list(enumerate(chunks))):
            res.cov["states"] += tt.get("distinct", 0)
            res.cov["transitions"] += tt.get("states", 0)
            if not ok:
                raise Infra("trace validation did not finish (%s): %s" % (tag, tt["tail"][-2500:]))
            res.cov["traces_validated_against_impl"] += len(ch)
            for (lno, lid, reasons) in rej:
                ln = ch[lno - 1]
                for reason in reasons:
                    if any(p in reason.split(":")[0] for p in props):
                        nrej += 1
                        rec = {"line": {k: v for k, v in ln.items() if k != "_g"}, "reason": reason}
                        key = classify(rec) if classify else None
                        res.violation(key or ("trace|" + reason), rec)
    res.cov["evaluations"] += len(lines)
    res.notes.setdefault("trace_families", []).append({"tag": tag, "grammars": len(blocks), "trace_lines": len(lines), "rejected_clauses": nrej,
                                                       "tlc_distinct_states": t["distinct"]})
    if lines and len(res.cov["samples"]) < 4:
        s = dict(lines[len(lines) // 2])
        s.pop("_g", None)
        res.cov["samples"].append({"trace_line": s})
    return lines


# ---------------------------------------------------------------------------- API behaviours (Api.tla)
def descr_text(raw, code):
    """Print a raw definition in the documented description syntax (format conversion only)."""
    out = []
    if raw["terms"]:
        out.append("TERM " + " ".join("%s=%d" % (tname(t["n"]), code(t["c"])) for t in raw["terms"]) + ";")
    prev_lhs = None
    for r in raw["rules"]:
        rhs = " ".join(tname(x) for x in r["r"])
        if r["an"] != 0:
            tr = "# a%d %d (%s)" % (r["an"], r["c"], " ".join("-" if e == 0 else str(e - 1) for e in r["t"]))
        elif not r["t"]:
            tr = ""
        else:
            tr = "# -" if r["t"][0] == 0 else "# %d" % (r["t"][0] - 1)
        alt = ("%s %s" % (rhs, tr)).strip()
        if prev_lhs == r["l"]:
            out[-1] = out[-1][:-2] + "\n  | " + alt + " ;"      # consecutive rules of one nonterminal: alternatives (a wide rule is a deep yacc stack)
        else:
            out.append("%s : %s ;" % (tname(r["l"]), alt))
        prev_lhs = r["l"]
    return "\n".join(out) + "\n"


def api_pool_lines(pools, codemap="ascii"):
    code = CODEMAPS[codemap]
    lines = []
    for i, raw in enumerate(pools["defs"], 1):
        lines.append("DEF %d" % i)
        for t in raw["terms"]:
            lines.append("T %s %d" % (tname(t["n"]), code(t["c"])))
        for r in raw["rules"]:
            lines.append(rule_line(r))
        lines.append("TEXT %d %s" % (i, descr_text(raw, code).encode().hex()))
    lines.append("DEF 0")
    lines.append("TEXT 0 " + "S : : ;\n".encode().hex())
    inputs = {}
    for i, w in enumerate(pools["inputs"], 1):
        inputs[json.dumps(w)] = i
        lines.append("IN %d %d %s" % (i, len(w), " ".join(str(code(t)) for t in w)))
    return lines, inputs


def api_behaviour_block(bid, hist, inputs, fault_k=None):
    lines = ["G " + bid, "B " + bid]
    for e in hist:
        op = e["op"]
        if e.get("fault") and fault_k is not None:
            lines.append("K %d" % fault_k)
        if op == "create":
            lines.append("c %d" % e["s"])
        elif op == "free":
            lines.append("f %d" % e["s"])
        elif op == "set":
            lines.append("s %d %s %d %d" % (e["s"], e["which"], e["v"], e["prev"]))
        elif op == "define":
            lines.append("d %d %d %d %d %s" % (e["s"], e["d"], 1 if e["strict"] else 0, 1 if e["text"] else 0, ",".join(map(str, e["rcs"]))))
        elif op == "parse":
            lines.append("p %d %d %s %s %d" % (e["s"], inputs[json.dumps(e["w"])], e["mode"], ",".join(map(str, e["rcs"])), 1 if e["sent"] else 0))
    lines.append("x")
    return lines



# ---------------------------------------------------------------------------- corpus (MCCorpus.tla)
def corpus_cfg(trees, recov=0, treecap=400):
    return """SPECIFICATION Spec
CONSTANTS
  EmitTrees = %s
  Recov = %d
  TreeCap = %d
INVARIANTS Emit
CHECK_DEADLOCK FALSE
""" % ("TRUE" if trees else "FALSE", recov, treecap)


def corpus_vectors(res, scratch, tag, entries, trees=False, recov=0, timeout=1500, treecap=400):
    """TLC judges every corpus entry x input; returns merged vectors {id: vec}."""
    path = scratch.path("corpus_%s.json" % tag)
    with open(path, "w") as f:
        json.dump(entries, f)
    t = run_tlc(scratch, "MCCorpus", corpus_cfg(trees, recov, treecap), tag, timeout=timeout, env={"CORPUS": path})
    if t["status"] != "ok":
        raise Infra("TLC corpus %s: %s\n%s" % (tag, t["status"], t["tail"][-3000:]))
    res.add_tlc(t)
    vecs = {}
    seen = set()
    for v in tlc_vectors(t["out"]):
        cur = vecs.setdefault(v["id"], {"id": v["id"], "cases": []})
        if "rules" in v:
            cur.update({k: v[k] for k in ("terms", "rules", "dn", "ds")})
        for c in v.get("cases", []):
            key = (v["id"], json.dumps(c["w"]))
            if key not in seen:
                seen.add(key)
                cur["cases"].append(c)
    for v in vecs.values():
        v["trees_emitted"] = trees
        v["cases"].sort(key=lambda c: (len(c["w"]), c["w"]))
    res.notes.setdefault("families", []).append({"tag": tag, "entries": len(entries), "judged_cases": len(seen),
                                                 "tlc_distinct_states": t["distinct"], "tlc_wall_s": round(t["wall"], 1)})
    return vecs


def replay_vectors(res, vecs, make_blocks, builds, mine, libs=("c",), harness_args=()):
    blocks = []
    for g, vec in vecs.items():
        b = make_blocks(vec)
        if b is not None:
            blocks.append(b)
            if nontrivial_grammar(vec):
                res.cov["distinct_nontrivial"] += 1
            if len(res.cov["samples"]) < 3:
                res.cov["samples"].append({"corpus_entry": g, "harness_block_head": b[:14]})
    byg = {b[0][2:]: v for b in blocks for v in [vecs.get(b[0][2:])]}
    for lib in libs:
        for bdir in builds:
            binary = os.path.join(bdir, "yv_replay" + ("xx" if lib == "c++" else ""))
            recs, st = run_harness(binary, blocks, args=harness_args)
            for r in recs:
                if r.get("k") == "summary":
                    res.cov["evaluations"] += r["parses"] + r["defs"]
                    for key in ("hits", "sets", "recs", "trees"):
                        res.notes[key] = res.notes.get(key, 0) + r.get(key, 0)
                elif r.get("k") == "mismatch":
                    key = mine(r)
                    v = byg.get(r.get("g")) or {}
                    rec = dict(r, build=os.path.basename(bdir), vector={k: v.get(k) for k in ("id", "rules", "terms")})
                    if key:
                        res.violation(key, rec)
                    else:
                        res.notes["other_property_mismatches"] = res.notes.get("other_property_mismatches", 0) + 1
                elif r.get("e") == "Abort":
                    blk = r.get("block")
                    res.violation(abort_key(r), dict(r, build=os.path.basename(bdir), block=(blk or [])[:40]))
            res.cov["traces_validated_against_impl"] += len(blocks)
    return blocks
