"""Corpus of raw definitions for spec/MCCorpus.tla: curated grammars and generated families.
Only generation and format conversion happen here; every entry is judged by TLC."""
import random, itertools

# names: terminals 1..9, nonterminals 11.., error 0


def R(l, r, an=0, c=0, t=()):
    return {"l": l, "r": list(r), "an": an, "c": c, "t": list(t)}


def entry(id, rules, terms=None, maxlen=4, alphabet=None, inputs=()):
    isT = lambda k: 0 < k < 10 or 100 <= k < 1000
    ts = sorted({s for r in rules for s in r["r"] if isT(s)} | {r["l"] for r in rules if isT(r["l"])}
                | set(alphabet or []) | {t for x in inputs for t in x})
    if terms is None:
        terms = [{"n": t, "c": t} for t in ts]
    if alphabet is None:
        alphabet = [t["n"] for t in terms if t["n"] > 0] or [1]
    return {"id": id, "terms": terms, "rules": rules, "maxlen": maxlen, "alphabet": list(alphabet), "inputs": [list(x) for x in inputs]}


S, A, B, C, D, E, F, T = 11, 12, 13, 14, 15, 16, 17, 18



def untranslated_tails():
    """Rules whose LAST symbols are not translated while an earlier one is: S : X m... Z with only X (or a middle symbol) in the
    translation, X and Z each deriving one or two tokens, so the untranslated Z has several origins and every origin is another split
    with another translation of the earlier symbols.  Shapes: 0-2 untranslated symbols between the translated one and Z, with and without
    abstract node, both orders of Z's alternatives, a terminal or a nonterminal in the middle."""
    out = []
    X, Y, Z = 12, 13, 14
    xs = [R(X, [1], 2, 1, [1]), R(X, [1, 1], 3, 2, [1, 2])]
    ys = [R(Y, [1], 4, 1, [1])]
    for zi, zs in enumerate(([R(Z, [1]), R(Z, [1, 1])], [R(Z, [1, 1]), R(Z, [1])], [R(Z, [1], 5, 1, [1]), R(Z, [1, 1], 6, 1, [1, 2])])):
        for mi, mid in enumerate(([], [Y], [1], [Y, Y], [1, Y])):
            for ti, (an, t) in enumerate(((1, [1]), (0, [1]), (1, [1, 0]))):
                rules = [R(S, [X] + mid + [Z], an, 1 if an else 0, t)] + xs + (ys if Y in mid else []) + zs
                out.append(entry("untail-z%d-m%d-t%d" % (zi, mi, ti), rules, maxlen=0, alphabet=[1],
                                 inputs=[[1] * k for k in range(2 + len(mid), 5 + len(mid))]))
        # the translated symbol in the middle, untranslated symbols on both sides
        rules = [R(S, [Y, X, 1, Z], 1, 1, [2])] + xs + ys + zs
        out.append(entry("untail-z%d-mid" % zi, rules, maxlen=0, alphabet=[1], inputs=[[1] * k for k in range(4, 8)]))
    return out



def empty_anode_names():
    """Abstract nodes whose name is the empty string (name id 77, printed as "" by yvlib.rule_line): legal for yaep_read_grammar; the
    memory contract (C13) must hold for them as for any other name.  Used where trees are not compared by name."""
    out = []
    out.append(entry("emptyname-1", [R(S, [1], 77, 1, [1])], maxlen=2, alphabet=[1]))
    out.append(entry("emptyname-2", [R(S, [A, A], 77, 1, [1, 2]), R(A, [1], 77, 1, [1]), R(A, [1, 1], 2, 1, [1, 2])], maxlen=4, alphabet=[1]))
    out.append(entry("emptyname-3", [R(S, [S, 1], 77, 1, [1, 2]), R(S, [], 77, 0, [])], maxlen=3, alphabet=[1]))
    return out


def curated():
    c = []
    # 1 the test suite's expression grammar: E : E + T | T ; T : T * F | F ; F : a | ( E )   (+=2 *=3 (=4 )=5 a=1)
    c.append(entry("expr", [R(E, [E, 2, T], 1, 1, [1, 3]), R(E, [T], 0, 0, [1]), R(T, [T, 3, F], 2, 1, [1, 3]), R(T, [F], 0, 0, [1]),
                            R(F, [1], 0, 0, [1]), R(F, [4, E, 5], 0, 0, [2])], maxlen=4, alphabet=[1, 2, 3, 4, 5],
                   inputs=[[1, 2, 1, 3, 1], [4, 1, 2, 1, 5, 3, 1], [1, 2, 1, 2, 1, 2, 1], [1, 3, 4, 1, 2, 1, 5], [4, 4, 1, 5, 5], [1, 2, 2, 1], [4, 1, 5, 5]]))
    # 2 ambiguous expressions with costs
    c.append(entry("ambexpr", [R(E, [E, 2, E], 1, 1, [1, 3]), R(E, [E, 3, E], 2, 2, [1, 3]), R(E, [1], 0, 0, [1])], maxlen=5, alphabet=[1, 2, 3],
                   inputs=[[1, 2, 1, 3, 1, 2, 1], [1, 2, 1, 2, 1, 2, 1]]))
    # 3 lists, left and right recursive
    c.append(entry("llist", [R(S, [S, 2, 1], 1, 1, [1, 3]), R(S, [1], 1, 1, [1])], maxlen=6, inputs=[[1, 2] * 6 + [1]]))
    c.append(entry("rlist", [R(S, [1, 2, S], 1, 1, [1, 3]), R(S, [1], 1, 1, [1])], maxlen=6, inputs=[[1, 2] * 6 + [1]]))
    # 4 nullable chain
    c.append(entry("nullchain", [R(S, [A, B, C], 1, 1, [1, 2, 3]), R(A, [1], 0, 0, [1]), R(A, []), R(B, [2], 0, 0, [1]), R(B, []), R(C, [3], 0, 0, [1]), R(C, [])],
                   maxlen=4))
    # 5 hidden left recursion
    c.append(entry("hiddenleft", [R(S, [A, S, 2], 1, 1, [2]), R(S, [1], 0, 0, [1]), R(A, []), R(A, [3])], maxlen=5))
    # 6 dangling else  i=1 e=2 x=3
    c.append(entry("dangling", [R(S, [1, S], 1, 1, [2]), R(S, [1, S, 2, S], 2, 1, [2, 4]), R(S, [3], 0, 0, [1])], maxlen=5, alphabet=[1, 2, 3],
                   inputs=[[1, 1, 3, 2, 3], [1, 1, 1, 3, 2, 3, 2, 3]]))
    # 7 palindromes
    c.append(entry("palin", [R(S, [1, S, 1], 1, 1, [2]), R(S, [2, S, 2], 2, 1, [2]), R(S, [1], 0, 0, [1]), R(S, [2], 0, 0, [1]), R(S, [])], maxlen=5))
    # 8 unit chain, deepest nonterminal first (FOLLOW needs many passes): S : F q | E q | D q | C q | B q | A x ; A:B B:C C:D D:E E:F F:f
    c.append(entry("followchain", [R(S, [F, 2]), R(S, [E, 2]), R(S, [D, 2]), R(S, [C, 2]), R(S, [B, 2]), R(S, [A, 3]),
                                   R(A, [B]), R(B, [C]), R(C, [D]), R(D, [E]), R(E, [F]), R(F, [1])], maxlen=2, alphabet=[1, 2, 3]))
    # 9 permuted three-symbol translation with ambiguous split
    c.append(entry("perm3", [R(S, [A, B, 3], 1, 1, [3, 2, 1]), R(A, [1], 2, 1, [1]), R(A, [1, 1], 3, 1, [1, 2]), R(B, [1], 4, 1, [1]), R(B, [1, 1], 5, 1, [1, 2])],
                   maxlen=5, alphabet=[1, 3]))
    # 10 statements with error recovery:  P : P s | s ; s : a ; | error ;     a=1 ;=2
    c.append(entry("stmts", [R(S, [S, A], 1, 1, [1, 2]), R(S, [A], 0, 0, [1]), R(A, [1, 2], 2, 1, [1]), R(A, [0, 2], 3, 1, [1])], maxlen=5,
                   inputs=[[1, 2, 1, 1, 2, 1, 2], [1, 1, 2, 2, 1, 2]]))
    # 11 nested error rules:  B : { I } | error } ; I : x x ; | error ;    {=1 }=2 x=3 ;=4
    c.append(entry("nestederr", [R(B, [1, A, 2], 1, 1, [2]), R(B, [0, 2], 2, 1, []), R(A, [3, 3, 4], 3, 1, [1, 2]), R(A, [0, 4], 4, 1, [])], maxlen=4, alphabet=[1, 2, 3, 4],
                   inputs=[[1, 3, 3, 4], [1, 3, 3, 3, 2], [1, 3, 4, 2], [1, 3, 3, 4, 2, 2]]))
    # 12 two phrases sharing a fragment in different contexts (cache reuse): S' : S' [ S ] | [ S ] ; S : p A q | r A t ; A : x y
    c.append(entry("ctxfrag", [R(T, [T, 1, S, 2], 1, 1, [1, 3]), R(T, [1, S, 2], 1, 1, [2]), R(S, [3, A, 4], 2, 1, [2]), R(S, [5, A, 6], 3, 1, [2]), R(A, [7, 8], 4, 1, [1, 2])],
                   maxlen=0, alphabet=[1], inputs=[[1, 3, 7, 8, 4, 2, 1, 5, 7, 8, 6, 2], [1, 5, 7, 8, 6, 2, 1, 3, 7, 8, 4, 2, 1, 3, 7, 8, 4, 2], [1, 3, 7, 8, 6, 2], [1, 3, 7, 8, 4, 2] * 4]))
    # 13 the same fragment grammar with a right-recursive list: the sets after `[' are identical in every repetition,
    #    so the cached transition on `y' is found again with a different origin set for the first start situation only
    c.append(entry("ctxfragR", [R(T, [B]), R(T, [B, T], 1, 1, [1, 2]), R(B, [1, S, 2], 0, 0, [2]), R(S, [3, A, 4], 2, 1, [2]), R(S, [5, A, 6], 3, 1, [2]), R(A, [7, 8], 4, 1, [1, 2])],
                   maxlen=0, alphabet=[1], inputs=[[1, 3, 7, 8, 4, 2, 1, 5, 7, 8, 6, 2], [1, 5, 7, 8, 6, 2, 1, 3, 7, 8, 4, 2], [1, 3, 7, 8, 4, 2] * 2 + [1, 5, 7, 8, 6, 2] * 2 + [1, 3, 7, 8, 4, 2],
                                                       [1, 3, 7, 8, 6, 2]]))
    # 14 ambiguous prefix followed by a nullable symbol in the middle of a rule (items advanced over a nullable
    #    symbol keep one origin each)
    c.append(entry("nullmid", [R(S, [A, B], 1, 1, [1, 2]), R(A, [1], 2, 1, [1]), R(A, [1, 1], 3, 1, [1, 2]), R(B, [C, D, 3], 4, 1, [1, 2]),
                               R(C, [1], 5, 1, [1]), R(C, [1, 1], 6, 1, [1, 2]), R(D, []), R(D, [2], 7, 1, [1])], maxlen=5, alphabet=[1, 2, 3]))
    # 15 same rule completed with different origins (variable-length tail): S : Q P ; Q : Q a | a ; P : a R ; R : R a |
    c.append(entry("sameruleorig", [R(S, [A, B], 1, 1, [1, 2]), R(A, [A, 1], 2, 1, [1]), R(A, [1], 3, 1, []), R(B, [1, C], 4, 1, [2]), R(C, [C, 1], 5, 1, [1]), R(C, [])],
                   maxlen=6, alphabet=[1]))
    # 16 error only expected at the very beginning: a recovery goes all the way back and the parser arrives again at
    #    parser-list indexes for which sets were cached during the abandoned continuation (found by MCCache)
    c.append(entry("staleplace", [R(S, [A], 1, 1, [1]), R(S, [0, A], 2, 1, [2]), R(A, [A, B], 3, 1, [1, 2]), R(A, [B], 0, 0, [1]), R(B, [1, 2], 4, 1, [1, 2]), R(B, [3, B], 5, 1, [1, 2])],
                   maxlen=3, alphabet=[1, 2, 3], inputs=[[3, 3, 1, 2, 2, 3, 1, 2], [3, 1, 2, 2, 1, 2], [3, 3, 1, 2, 1, 3, 1, 2], [1, 2, 3, 3, 3, 2, 3, 1, 2]]))
    # 17 a nullable nonterminal with a non-empty rule whose completed item is in one set both with origin at that
    #    set and with an earlier origin (found by the thorough tier of C02: the translation of the empty A was dropped)
    c.append(entry("nullanode", [R(S, [], 1, 1, []), R(A, [S, S], 2, 2, [2, 1]), R(S, [1, A], 1, 1, [1, 2])], maxlen=4, alphabet=[1]))
    c.append(entry("nullanode2", [R(S, [], 1, 1, []), R(A, [S, S], 1, 1, [1, 2]), R(S, [A, 1], 0, 0, [1])], maxlen=4, alphabet=[1]))
    # 18 items whose tails are shared between alternatives chosen by the first token (a seeded change of the cache check that
    #    stopped at the first start situation with distance <= 1 lost the `q C' reading of the second item):
    #    L : L I | I ; I : p B | q B | q C ; B : A z ; C : A z ; A : x y | x E ; E : D z ; D : y      p=1 q=2 x=3 y=4 z=5
    for kind in ("left", "right"):
        lst = [R(T, [T, S], 1, 1, [1, 2]), R(T, [S], 0, 0, [1])] if kind == "left" else [R(T, [S, T], 1, 1, [1, 2]), R(T, [S], 0, 0, [1])]
        c.append(entry("ctxtails-" + kind, lst + [R(S, [1, B], 2, 1, [2]), R(S, [2, B], 3, 1, [2]), R(S, [2, C], 4, 1, [2]), R(B, [A, 5], 5, 1, [1]), R(C, [A, 5], 6, 1, [1]),
                                                 R(A, [3, 4], 7, 1, []), R(A, [3, E], 8, 1, [2]), R(E, [D, 5], 9, 1, [1]), R(D, [4], 10, 1, [])],
                       maxlen=0, alphabet=[1], inputs=[[1, 3, 4, 5, 2, 3, 4, 5], [2, 3, 4, 5, 1, 3, 4, 5], [2, 3, 4, 5, 5, 1, 3, 4, 5, 5], [1, 3, 4, 5, 2, 3, 4, 5, 5],
                                                       [2, 3, 4, 5, 2, 3, 4, 5, 2, 3, 4, 5], [1, 3, 4, 5, 5, 2, 3, 4, 5, 1, 3, 4, 5]]))
    # 19 an alternative list shared between an abstract node and its copies for other split points, under the cost flag
    #    (reported by a sub-agent while seeding C04): S : A B C ; A : a | a a ; B : a | a a ; C : c (cost 5) | c (cost 3)
    c.append(entry("sharedalt", [R(S, [A, B, C], 1, 0, [1, 2, 3]), R(A, [1], 2, 1, []), R(A, [1, 1], 3, 1, []), R(B, [1], 4, 1, []), R(B, [1, 1], 5, 1, []),
                                 R(C, [3], 6, 5, []), R(C, [3], 7, 3, [])], maxlen=5, alphabet=[1, 3], inputs=[[1, 1, 1, 3], [1, 1, 1, 1, 3]]))
    c.append(entry("sharedalt2", [R(S, [A, B, C], 1, 0, [1, 2, 3]), R(A, [1], 2, 1, []), R(A, [1, 1], 3, 2, []), R(B, [1], 4, 1, []), R(B, [1, 1], 5, 2, []),
                                  R(C, [D], 6, 5, [1]), R(C, [D], 7, 3, [1]), R(D, [3], 8, 1, []), R(D, [3], 9, 1, [])], maxlen=5, alphabet=[1, 3], inputs=[[1, 1, 1, 3]]))
    # 20 abstract nodes with three children whose first and last are shared (the single nil node, terminal nodes shared between
    #    alternatives): yaep_free_tree has to reach the child between them in the second such node
    #    L : L d | d ; d : q t i ; # decl (0 1 2) ; q : | c # qual ; i : | = # init        t=1 ;=2 c=3 '='=4
    c.append(entry("decls", [R(T, [T, S], 1, 1, [1, 2]), R(T, [S], 0, 0, [1]), R(S, [A, 1, B, 2], 2, 1, [1, 2, 3]), R(A, []), R(A, [3], 3, 1, [1]), R(B, []), R(B, [4], 4, 1, [1])],
                   maxlen=4, alphabet=[1, 2, 3, 4], inputs=[[1, 2, 1, 2], [3, 1, 4, 2, 1, 2, 1, 2], [1, 2, 1, 2, 1, 2], [1, 2, 3, 1, 2, 1, 4, 2, 1, 2]]))
    #    the same with an ambiguous middle (terminal nodes shared between the alternatives)
    c.append(entry("decls-amb", [R(T, [T, S], 1, 1, [1, 2]), R(T, [S], 0, 0, [1]), R(S, [A, C, B], 2, 1, [1, 2, 3]), R(A, []), R(A, [1], 3, 1, [1]), R(B, []), R(B, [1], 4, 1, [1]),
                                 R(C, [1], 5, 1, [1]), R(C, [1, 1], 6, 1, [1, 2])], maxlen=4, alphabet=[1]))
    # 21 a list of alternatives that is exponentially long (all derivations have the same translation; yaep_free_tree used to recurse
    #    once per alternative and crashed on a dozen tokens):  S : # n | S b S # 2
    c.append(entry("expalt", [R(S, [], 1, 1, []), R(S, [S, 2, S], 0, 0, [3])], maxlen=4, alphabet=[2], inputs=[[2] * 9, [2] * 12]))
    # 22 the origin decides how the input may go on: the same situation with a nullable symbol after the dot is in one set with two
    #    origins, and each origin allows another continuation (a duplicate check that forgets the origin drops one of them):
    #    S : x A c | x y A d ; A : Y N z ; Y : y | Y y ; N : | n          x=1 y=2 z=3 c=4 d=5 n=6
    for k, tail in enumerate(([16, 3], [3, 16], [16])):          # N before z, after z, alone at the end
        c.append(entry("twoorig-%d" % k, [R(S, [1, A, 4], 1, 1, [2]), R(S, [1, 2, A, 5], 2, 1, [3]), R(A, [15] + tail, 3, 1, [1]),
                                          R(15, [2], 0, 0, [1]), R(15, [15, 2], 4, 1, [1]), R(16, []), R(16, [6], 5, 1, [1])],
                       maxlen=0, alphabet=[1, 2, 3, 4, 5, 6],
                       inputs=[[1, 2, 2, 2] + ([3] if 3 in tail else []) + [5], [1, 2, 2, 2] + ([3] if 3 in tail else []) + [4], [1, 2, 2, 2] + ([3] if 3 in tail else []) + [5, 5],
                               [1, 2, 2] + ([3] if 3 in tail else []) + [5], [1, 2, 2, 6] + ([3] if 3 in tail else []) + [5], [1, 2, 2, 2, 2] + ([3] if 3 in tail else []) + [4, 4]]))
    # 23 an ambiguous split whose right part is translated through a pass-through rule (no abstract node), under an abstract node:
    #    S : A B # s (0 1) ; A : a | a a ; B : C # 0 ; C : b | a b | D ; D : a b # 0      (the copy made for the second split must get
    #    the translation of ITS right part)
    c.append(entry("passsplit", [R(S, [A, B], 1, 1, [1, 2]), R(A, [1], 2, 1, [1]), R(A, [1, 1], 3, 2, [1, 2]), R(B, [C], 0, 0, [1]),
                                 R(C, [2], 4, 1, [1]), R(C, [1, 2], 5, 3, [1, 2]), R(C, [D], 0, 0, [1]), R(D, [1, 2], 6, 1, [2])],
                   maxlen=4, alphabet=[1, 2], inputs=[[1, 1, 2], [1, 1, 1, 2]]))
    c.append(entry("passsplit3", [R(S, [A, B, C], 1, 1, [3, 1, 2]), R(A, [1], 2, 1, []), R(A, [1, 1], 3, 1, []), R(B, [D], 0, 0, [1]), R(D, [1], 4, 1, []),
                                  R(D, [1, 1], 5, 2, []), R(C, [E], 0, 0, [1]), R(E, [2], 6, 1, []), R(E, [1, 2], 7, 1, [])],
                   maxlen=0, alphabet=[1, 2], inputs=[[1, 1, 1, 2], [1, 1, 1, 1, 2], [1, 1, 2]]))
    # 24 bracketed groups of two kinds, `error' only at the very beginning: a recovery goes all the way back and the parser then meets the
    #    same (set, terminal) pairs again and again (results cached before the recovery must not come back):
    #    S : h L | error L ; L : g P L | ; P : ( A ) | [ A ] ; A : t t          h=1 g=2 (=3 )=4 [=5 ]=6 t=7
    c.append(entry("brackets", [R(S, [1, A], 1, 1, [2]), R(S, [0, A], 2, 1, [2]), R(A, [2, B, A], 3, 1, [2, 3]), R(A, []), R(B, [3, C, 4], 4, 1, [2]),
                                R(B, [5, C, 6], 5, 1, [2]), R(C, [7, 7], 6, 1, [])], maxlen=0, alphabet=[1, 2, 3, 4, 5, 6, 7],
                   inputs=[[1, 2, 3, 7, 7, 4], [1, 2, 3, 7, 7, 6, 2, 5, 7, 7, 6], [1, 2, 3, 7, 7, 6, 2, 5, 7, 7, 6, 2, 5, 7, 7, 4],
                           [1, 2, 3, 7, 7, 7, 6, 2, 5, 7, 7, 6, 2, 5, 7, 7, 6], [1, 2, 5, 7, 4, 2, 3, 7, 7, 4, 2, 3, 7, 7, 4]]))
    # 25 the shared alternative list again, with costs that make the one or the other split strictly cheaper (the split visited second
    #    wins in one of the two mirrored grammars, whatever the order of visits)
    for k, (ca, cb) in enumerate(((1, 3), (3, 1))):
        c.append(entry("sharedalt-asym%d" % k, [R(S, [A, B, C], 1, 0, [1, 2, 3]), R(A, [1], 2, 1, []), R(A, [1, 1], 3, ca, []), R(B, [1], 4, 1, []), R(B, [1, 1], 5, cb, []),
                                               R(C, [3], 6, 5, []), R(C, [3], 7, 3, [])], maxlen=0, alphabet=[1, 3], inputs=[[1, 1, 1, 3], [1, 1, 1, 1, 3]]))
    return c


def wide_terminal_sets():
    """Curated grammars padded with dummy terminals so that the parser's terminal sets (bit vectors of machine
    words) have more than 64 and more than 128 members; the padding is declared before or after the real
    terminals and is reachable through one extra alternative of the start symbol."""
    out = []
    base = {e["id"]: e for e in curated()}
    for gid in ("expr", "followchain", "nullchain", "stmts", "hiddenleft"):
        e = base[gid]
        # 62 / 126 user terminals in all make, with `error' and the end marker, exactly 64 / 128: a full last word
        for npad in (62, 70, 130, 62 - len(e["terms"]), 126 - len(e["terms"])):
            pads = list(range(101, 101 + npad))
            start = e["rules"][0]["l"]
            for where in ("before", "after"):
                real = [t for t in e["terms"]]
                padterms = [{"n": p, "c": p} for p in pads]
                terms = padterms + real if where == "before" else real + padterms
                rules = list(e["rules"]) + [R(start, [pads[0], pads[-1]])]
                out.append({"id": "wide-%s-%d-%s" % (gid, npad, where), "terms": terms, "rules": rules, "maxlen": min(e["maxlen"], 3),
                            "alphabet": e["alphabet"], "inputs": e["inputs"][:3] + [[pads[0], pads[-1]], [pads[0]]]})
    return out


def chain_family(depth=5):
    """Grammars whose analyses (nullable, productive, FIRST/FOLLOW, loops) need `depth' passes of the
    implementation's fixed-point loops, in both rule orders."""
    out = []
    nts = [12 + i for i in range(depth)]
    for order in ("fwd", "rev"):
        for link in ("unit", "unit_t", "nullpre"):
            for tail in ("term", "empty", "loop"):
                for ctx in ("plain", "follow"):
                    rules = []
                    for i, n in enumerate(nts):
                        nxt = nts[i + 1] if i + 1 < depth else None
                        if nxt is None:
                            if tail == "term":
                                rules.append(R(n, [1]))
                            elif tail == "empty":
                                rules.append(R(n, []))
                            else:
                                rules.append(R(n, [nts[0]]))
                                rules.append(R(n, [1]))
                        else:
                            if link == "unit":
                                rules.append(R(n, [nxt]))
                            elif link == "unit_t":
                                rules.append(R(n, [nxt]))
                                rules.append(R(n, [2]))
                            else:
                                rules.append(R(n, [nxt, nxt]))
                    if order == "rev":
                        rules = rules[::-1]
                    start = [R(S, [nts[0], 3])] if ctx == "plain" else [R(S, [nts[-1], 2])] + [R(S, [n, 2]) for n in nts[1:-1][::-1]] + [R(S, [nts[0], 3])]
                    out.append(entry("chain-%d-%s-%s-%s-%s" % (depth, order, link, tail, ctx), start + rules, maxlen=3, alphabet=[1, 2, 3]))
    return out


def loop_via_late_nullable():
    """T : X T | t where X's nullability needs several passes (each X_i has a terminal alternative and is
    declared before the symbol it depends on)."""
    out = []
    for d in (2, 3, 4):
        xs = [13 + i for i in range(d)]
        rules = [R(S, [T]), R(T, [xs[0], T]), R(T, [1])]
        for i, x in enumerate(xs):
            if i + 1 < d:
                rules += [R(x, [xs[i + 1]]), R(x, [2])]
            else:
                rules += [R(x, [])]
        out.append(entry("latenull-%d" % d, rules, maxlen=2, alphabet=[1, 2]))
        out.append(entry("latenull-%d-rev" % d, rules[:3] + rules[3:][::-1], maxlen=2, alphabet=[1, 2]))
    return out


def loop_shapes():
    """Grammars around the defect `a nonterminal can derive itself': a recursive rule A : alpha A beta whose context
    alpha/beta is empty, nullable directly, nullable late, or not nullable; the context symbol used alone elsewhere or
    not; the recursion direct or through a second nonterminal; both rule orders.  TLC decides which of them have a loop."""
    out = []
    ctxs = {"none": [], "B": [B], "BB": [B, B], "t": [1]}
    bdefs = {"eps": [R(B, [])], "eps_or_t": [R(B, []), R(B, [2])], "t": [R(B, [2])], "late": [R(B, [C]), R(B, [2]), R(C, [])]}
    k = 0
    for an, alpha in ctxs.items():
        for bn, beta in ctxs.items():
            for bd, brules in bdefs.items():
                for via in ("direct", "indirect"):
                    for alone in (0, 1):
                        for order in (0, 1):
                            if via == "direct":
                                rec = [R(A, alpha + [A] + beta), R(A, [1])]
                            else:
                                rec = [R(A, alpha + [D] + beta), R(A, [1]), R(D, [A]), R(D, [3])]
                            start = [R(S, [A])] + ([R(S, [B])] if alone else [])
                            body = rec + brules
                            if order:
                                body = body[::-1]
                            k += 1
                            if (k * 7919) % 3 != 0 and an != "none" and bn != "none":
                                continue          # thin out the biggest block deterministically
                            out.append(entry("loop-%s-%s-%s-%s-%d-%d" % (an, bn, bd, via, alone, order), start + body, maxlen=2, alphabet=[1, 2, 3]))
    return out


def loop_repeats():
    """The recursive nonterminal occurs several times in its own rule (A : A A | a is no loop: the other occurrence is not
    nullable; with a nullable A it is), reached through a unit rule or not, with a nullable or non-nullable neighbour."""
    out = []
    shapes = {"AA": [A, A], "AAA": [A, A, A], "ABA": [A, B, A], "BAA": [B, A, A], "AAB": [A, A, B], "ADA": [A, D, A]}
    bdefs = {"eps": [R(B, [])], "eps_or_t": [R(B, []), R(B, [2])], "t": [R(B, [2])]}
    for sn, shape in shapes.items():
        for bd, brules in bdefs.items():
            for abase in ("t", "eps", "paren"):
                for unit in (0, 1):
                    for order in (0, 1):
                        base = {"t": [R(A, [1])], "eps": [R(A, []), R(A, [1])], "paren": [R(A, [1]), R(A, [3, A, 3])]}[abase]
                        body = [R(A, shape)] + base + (brules if B in shape else []) + ([R(D, [A]), R(D, [])] if D in shape else [])
                        if order:
                            body = body[::-1]
                        start = [R(S, [A])] if unit else [R(S, [A, 1])]
                        out.append(entry("looprep-%s-%s-%s-%d-%d" % (sn, bd, abase, unit, order), start + body, maxlen=2, alphabet=[1, 2, 3]))
    return out


def random_grammars(seed, n, nnts=4, nterms=3, maxrules=7, maxrhs=3, err=False, trans=False, maxlen=3, empty_bias=0.0):
    rnd = random.Random(seed)
    out = []
    nts = [11 + i for i in range(nnts)]
    ts = list(range(1, nterms + 1))
    for k in range(n):
        nr = rnd.randint(2, maxrules)
        rules = []
        for i in range(nr):
            l = nts[0] if i == 0 else rnd.choice(nts)
            ln = rnd.choice([0, 1, 1, 2, 2, 3][:maxrhs + 3])
            ln = min(ln, maxrhs)
            if rnd.random() < empty_bias:
                ln = 0
            syms = ts + nts + ([0] if err else [])
            # bias towards terminals so that most grammars are productive
            r = [rnd.choice(ts) if rnd.random() < 0.45 else rnd.choice(syms) for _ in range(ln)]
            if trans and rnd.random() < 0.7:
                kind = rnd.random()
                if kind < 0.5 and ln > 0:
                    idx = list(range(1, ln + 1))
                    rnd.shuffle(idx)
                    t = idx[:rnd.randint(0, ln)]
                    if rnd.random() < 0.2:
                        t.insert(rnd.randint(0, len(t)), 0)
                    rules.append(R(l, r, rnd.randint(1, 3), rnd.randint(0, 3), t))
                elif kind < 0.8 and ln > 0:
                    rules.append(R(l, r, 0, 0, [rnd.randint(1, ln)]))
                else:
                    rules.append(R(l, r, rnd.randint(1, 3), rnd.randint(0, 3), []))
            else:
                rules.append(R(l, r))
        # repeated fragments make the parser meet the same (set, terminal, lookahead) triples again
        reps = []
        for _ in range(3):
            frag = [rnd.choice(ts) for _ in range(rnd.randint(1, 3))]
            reps.append((frag * rnd.randint(2, 4))[:7])      # longer inputs make the declarative counting oracle slow
        out.append(entry("rnd-%d-%d" % (seed, k), rules, terms=[{"n": t, "c": t} for t in ts], maxlen=maxlen, alphabet=ts, inputs=reps))
    return out


def long_inputs():
    """(entry id, grammar rules reused from the curated corpus, long inputs with many repeated fragments).
    These are not judged by TLC (too long); they serve the cache and lookahead-independence checks."""
    cur = {e["id"]: e for e in curated()}
    out = []
    frag1 = [1, 3, 7, 8, 4, 2]
    frag2 = [1, 5, 7, 8, 6, 2]
    out.append(("ctxfrag", cur["ctxfrag"], [frag1 * 40 + frag2 * 40, (frag1 + frag2) * 60, (frag2 + frag1 + frag1) * 50,
                                            frag1 * 10 + [1, 3, 7, 8, 6, 2] + frag2 * 10]))       # the last one has an error in the middle
    out.append(("ctxfragR", cur["ctxfragR"], [(frag1 + frag2) * 40, frag1 * 30 + frag2 * 30 + frag1 * 3, (frag2 * 2 + frag1) * 20]))
    out.append(("expr", cur["expr"], [([1, 2, 1, 3, 4, 1, 2, 1, 5, 2] * 80)[:-1], ([4] * 30 + [1] + [5] * 30 + [2]) * 6 + [1],
                                      ([1, 2, 1, 3] * 100)[:-1], [1, 2] * 50 + [2, 1] + [2, 1] * 50]))
    out.append(("llist", cur["llist"], [[1, 2] * 500 + [1], [1, 2] * 100 + [2] + [1, 2] * 100 + [1]]))
    out.append(("rlist", cur["rlist"], [[1, 2] * 500 + [1]]))
    out.append(("stmts", cur["stmts"], [[1, 2] * 200, ([1, 2] * 7 + [1, 1, 2]) * 30, ([1, 2] * 3 + [2, 2, 1]) * 40 + [1, 2]]))
    out.append(("dangling", cur["dangling"], [[1] * 60 + [3] + [2, 3] * 30, [1, 1, 3, 2, 3, 2] * 5 + [3]]))
    out.append(("nestederr", cur["nestederr"], [[1, 3, 3, 4, 2] * 1, [1, 3, 3, 3, 3, 4, 2], [1, 3, 4, 2]]))
    return out


# ----------------------------------------------------------------------------- error recovery corpora (RecTrace.tla)
def nested_error_family():
    """Grammars with `error' expected at several nesting levels before the failing position, so that the recovery search
    has to move its back frontier several times:  N_i : o_i N_{i+1} c_i | o_i error c_i ; innermost : k k ; plus a tail
    after the outermost level.  Inputs: the sentence with every contiguous segment deleted, and single replacements."""
    out = []
    for depth in (2, 3, 4):
        for tail in (0, 3):
            for closers in (True, False):
                opens = [101 + i for i in range(depth)]
                closes = [121 + i for i in range(depth)] if closers else [None] * depth
                tails = [141 + j for j in range(tail)]
                nts = [11 + i for i in range(depth + 1)]
                rules = []
                for i in range(depth):
                    after = ([closes[i]] if closes[i] else []) + (tails if i == 0 else [])
                    if not after:
                        after = [160 + i]
                    rules.append(R(nts[i], [opens[i], nts[i + 1]] + after, 1 + 2 * i, 1, [1]))
                    rules.append(R(nts[i], [opens[i], 0] + after, 2 + 2 * i, 1, []))
                rules.append(R(nts[depth], [1, 1], 20, 1, []))
                # the sentence
                def sent(i):
                    if i == depth:
                        return [1, 1]
                    after = ([closes[i]] if closes[i] else []) + (tails if i == 0 else [])
                    if not after:
                        after = [160 + i]
                    return [opens[i]] + sent(i + 1) + after
                s = sent(0)
                inputs = []
                for a in range(len(s)):
                    for b in range(a + 1, min(len(s), a + 5) + 1):
                        inputs.append(s[:a] + s[b:])
                for a in range(len(s)):
                    inputs.append(s[:a] + [1 if s[a] != 1 else opens[-1]] + s[a + 1:])
                    inputs.append(s[:a] + [1] + s[a:])
                uniq = []
                for w in inputs:
                    if w and w not in uniq:
                        uniq.append(w)
                out.append(entry("nesterr-%d-%d-%s" % (depth, tail, "c" if closers else "n"), rules, maxlen=0, inputs=uniq))
    return out


def gen_sentences(rules, rnd, n, maxlen, start=None):
    """Random sentences of a grammar by random leftmost expansion (generation only; TLC judges)."""
    by = {}
    for r in rules:
        by.setdefault(r["l"], []).append(r["r"])
    start = start if start is not None else rules[0]["l"]
    out = []
    for _ in range(n * 20):
        if len(out) >= n:
            break
        form, steps = [start], 0
        while any(s in by for s in form) and steps < 60 and len(form) <= maxlen + 6:
            i = next(k for k, s in enumerate(form) if s in by)
            alts = by[form[i]]
            # prefer short alternatives when the form is already long
            alt = rnd.choice(alts) if len(form) < maxlen else min(alts, key=len)
            form = form[:i] + list(alt) + form[i + 1:]
            steps += 1
        if any(s in by for s in form) or 0 in form or not (1 <= len(form) <= maxlen):
            continue
        if form not in out:
            out.append(form)
    return out


def damaged_inputs(sents, alphabet, rnd, per=4):
    out = []
    for s in sents:
        for _ in range(per):
            w = list(s)
            for _k in range(rnd.choice((1, 1, 2))):
                kind = rnd.randrange(4)
                pos = rnd.randrange(len(w)) if w else 0
                if kind == 0 and len(w) > 1:
                    del w[pos:pos + rnd.choice((1, 1, 2))]
                elif kind == 1:
                    w.insert(pos, rnd.choice(alphabet))
                elif kind == 2 and w:
                    w[pos] = rnd.choice(alphabet)
                elif w:
                    w = w[:pos] + w[pos + 1:] + [w[pos]]
            if w and w not in out and w not in sents:
                out.append(w)
    return out


def recovery_corpus(seed, n_random=20):
    """Entries with inputs of 5-14 tokens most of which contain syntax errors."""
    rnd = random.Random(seed)
    cur = {e["id"]: e for e in curated()}
    out = list(nested_error_family())
    for gid in ("stmts", "nestederr", "staleplace", "expr", "ctxfrag"):
        e = dict(cur[gid])
        sents = gen_sentences(e["rules"], rnd, 8, 12)
        e["inputs"] = damaged_inputs(sents, e["alphabet"], rnd, 4) + sents[:2]
        e["maxlen"] = 0
        e["id"] = "rec-" + gid
        out.append(e)
    # blocks of statements, two levels of error rules, lists:  B : { L } | { error } ; L : L s | s ; s : x ; | error ; | B
    blk = [R(12, [1, 13, 2], 1, 1, [2]), R(12, [1, 0, 2], 2, 1, []), R(13, [13, 14], 3, 1, [1, 2]), R(13, [14], 0, 0, [1]),
           R(14, [3, 4], 4, 1, []), R(14, [0, 4], 5, 1, []), R(14, [12], 0, 0, [1])]
    sents = gen_sentences(blk, rnd, 10, 13)
    out.append(entry("rec-blocks", blk, maxlen=0, alphabet=[1, 2, 3, 4], inputs=damaged_inputs(sents, [1, 2, 3, 4], rnd, 5) + sents[:2]))
    for g in random_grammars(seed + 77, n_random, nnts=3, nterms=3, maxrules=6, err=True, maxlen=3):
        sents = gen_sentences(g["rules"], rnd, 5, 9)
        if not sents:
            continue
        g = dict(g)
        g["inputs"] = damaged_inputs(sents, g["alphabet"], rnd, 3) + sents[:1]
        g["maxlen"] = 0
        g["id"] = "rec-" + g["id"]
        out.append(g)
    return out


def long_random_entries(seed, n):
    """Random rule sets with many nullable and ambiguous symbols (defined with strict = 0) and inputs of 6-20 tokens:
    generated sentences, damaged sentences, random strings."""
    rnd = random.Random(seed + 5)
    out = []
    for g in random_grammars(seed + 4000, n, nnts=4, nterms=2, maxrules=9, maxrhs=4, maxlen=0, empty_bias=0.12) + \
            random_grammars(seed + 5000, n // 2, nnts=3, nterms=1, maxrules=7, maxrhs=3, maxlen=0, empty_bias=0.2):
        sents = gen_sentences(g["rules"], rnd, 8, 20)
        sents = [w for w in sents if len(w) >= 6][:5]
        inputs = list(sents) + damaged_inputs(sents, g["alphabet"], rnd, 1)
        inputs += [[rnd.choice(g["alphabet"]) for _ in range(rnd.randint(8, 16))] for _ in range(2)]
        out.append(dict(g, inputs=inputs[:12], maxlen=0))
    return out


def nested_nullable_family(seed, n):
    """Rules X : C N u v | w w N with N nullable and also non-empty, C of several lengths, and N deriving X again
    (N : ... | X B z | ; B : X): instances of the first rule nest and end at the same position with different origins, so
    the same set core (start situations without distances) is met with different distance vectors.  Terminals are assigned
    at random; the inputs are generated sentences of 8-22 tokens and damaged copies."""
    rnd = random.Random(seed + 9)
    out = []
    X, N, Bn, Cn = 11, 12, 13, 14
    for k in range(n):
        t = lambda: rnd.choice((1, 2))
        rules = [R(X, [Cn, N, t(), t()]), R(X, [t(), t(), N]),
                 R(N, [t(), t()]), R(N, [X, Bn, t()]), R(N, []),
                 R(Bn, [X]),
                 R(Cn, [t(), t()]), R(Cn, [t()]), R(Cn, [t(), Cn, t()])]
        if rnd.random() < 0.5:
            rules.append(R(Bn, []))
        if rnd.random() < 0.3:
            rules.insert(2, R(X, [Cn, N, N, t()]))
        sents = gen_sentences(rules, rnd, 14, 22)
        sents = [w for w in sents if len(w) >= 8][:8]
        inputs = list(sents) + damaged_inputs(sents, [1, 2], rnd, 1)
        out.append(entry("nestnull-%d-%d" % (seed, k), rules, terms=[{"n": 1, "c": 1}, {"n": 2, "c": 2}], maxlen=0, alphabet=[1, 2], inputs=inputs[:16]))
    return out


def ambig_chain_family():
    """Ambiguity through unit chains of several depths, every order of the start symbol's alternatives and both rule orders: the
    dynamic lookahead contexts (level 2) of the chain's situations depend on the order in which the set's situations were added
    (a fixed point), and a context that is too small prunes one of the two derivations - the parse still succeeds.
    S : a d | Y_k d | X c ; Y_k : Y_k-1 ; ... ; Y_1 : X ; X : a       a=1 c=2 d=3; every rule has its own abstract node."""
    out = []
    for depth in (1, 2, 3):
        ys = [13 + i for i in range(depth)]          # Y_1 .. Y_depth
        chain = [R(ys[0], [12])] + [R(ys[i], [ys[i - 1]]) for i in range(1, depth)] + [R(12, [1])]
        for shape in ("head", "inner"):
          # head: the chain starts the alternatives; inner: it follows a scanned terminal, so that the lookahead of the scanned
          # situation is FIRST of the chain (S : p a e | p Y_k e | p X c)
          alts = [R(11, [1, 3]), R(11, [ys[-1], 3]), R(11, [12, 2])] if shape == "head" else [R(11, [2, 1, 3]), R(11, [2, ys[-1], 3]), R(11, [2, 12, 2])]
          for pi, perm in enumerate(itertools.permutations(range(3))):
            for order in (0, 1):
                  rules = [alts[i] for i in perm] + (chain if order == 0 else chain[::-1])
                  rules = [dict(r, an=i + 1, c=1, t=list(range(1, len(r["r"]) + 1))) for i, r in enumerate(rules)]
                  e = entry("ambchain-%s-%d-%d-%d" % (shape, depth, pi, order), rules, maxlen=(2 if shape == "head" else 3), alphabet=[1, 2, 3], inputs=([[1, 3], [1, 2]] if shape == "head" else [[2, 1, 3], [2, 1, 2]]))
                  out.append(e)
                  if depth >= 2 and pi in (0, 3, 5):
                      # the same with more than 64 terminals (terminal sets of two machine words), dummies before or after the real ones
                      for npad in (62, 70, 59, 123):      # 59 / 123 dummies + 3 real terminals + error + end marker = 64 / 128
                          for where in ("before", "after"):
                              pads = [{"n": p, "c": p} for p in range(101, 101 + npad)]
                              terms = pads + e["terms"] if where == "before" else e["terms"] + pads
                              wr = rules + [dict(R(11, [101, 100 + npad]), an=len(rules) + 1, c=1, t=[1, 2])]
                              out.append({"id": "%s-w%d%s" % (e["id"], npad, where[0]), "terms": terms, "rules": wr, "maxlen": 0, "alphabet": [1, 2, 3],
                                          "inputs": ([[1, 3], [1, 2]] if shape == "head" else [[2, 1, 3], [2, 1, 2]]) + [[101, 100 + npad]]})
    return out


def depth_chain_family():
    """One set predicts the same nonterminal X along unit chains of different depths, each chain followed by its own terminal:
    S : C1 t1 | C2 t2 | C3 t3 ; Ci : ... : X ; X : x.  The level-2 context of X needs as many rounds of the fixed point as the
    deepest chain, whatever the order of the situations; every order of the alternatives, both rule orders, depths (1,2,3) and (1,2,4)."""
    out = []
    for depths in ((1, 2, 3), (1, 2, 4), (2, 3, 3)):
        nt = 20
        chains, heads = [], []
        for d in depths:
            names = list(range(nt, nt + d))
            nt += d
            heads.append(names[0])
            for i in range(d - 1):
                chains.append(R(names[i], [names[i + 1]]))
            chains.append(R(names[-1], [12]))
        chains.append(R(12, [1]))
        alts = [R(11, [heads[i], 2 + i]) for i in range(3)]
        for pi, perm in enumerate(itertools.permutations(range(3))):
            for order in (0, 1, 2):
                body = chains if order == 0 else chains[::-1] if order == 1 else sorted(chains, key=lambda r: (r["l"] * 7919) % 13)
                rules = [alts[i] for i in perm] + body
                rules = [dict(r, an=i + 1, c=1, t=list(range(1, len(r["r"]) + 1))) for i, r in enumerate(rules)]
                out.append(entry("depthchain-%s-%d-%d" % ("".join(map(str, depths)), pi, order), rules, maxlen=2, alphabet=[1, 2, 3, 4],
                                 inputs=[[1, 2], [1, 3], [1, 4]]))
    # chains that SHARE nonterminals (acyclic unit-rule graphs): which predicted situation is the last one of the set, and which
    # one needs the most rounds, varies from graph to graph
    rnd = random.Random(4711)
    for k in range(140):
        n = rnd.randint(4, 7)
        nts = list(range(20, 20 + n))            # nts[i] may refer to nts[j] only for j > i; the last one derives x
        rules = []
        for i in range(n - 1):
            for j in rnd.sample(range(i + 1, n), rnd.randint(1, min(2, n - 1 - i))):
                rules.append(R(nts[i], [nts[j]]))
        rules.append(R(nts[-1], [1]))
        starts = rnd.sample(nts[:-1], min(3, n - 1))
        alts = [R(11, [h, 2 + i]) for i, h in enumerate(starts)]
        rnd.shuffle(rules)
        allr = alts + rules
        allr = [dict(r, an=i + 1, c=1, t=list(range(1, len(r["r"]) + 1))) for i, r in enumerate(allr)]
        out.append(entry("chaindag-%d" % k, allr, maxlen=2, alphabet=[1, 2, 3, 4], inputs=[[1, 2 + i] for i in range(len(starts))]))
    return out


def bracket_fragment_inputs(seed, n):
    """Inputs for the curated entry `brackets': h followed by 2-4 groups, most of them well formed, some with the wrong closer,
    a missing or an extra t - the damaged group comes early, the same good groups follow repeatedly."""
    rnd = random.Random(seed)
    good = [[2, 3, 7, 7, 4], [2, 5, 7, 7, 6]]
    bad = [[2, 3, 7, 7, 6], [2, 5, 7, 7, 4], [2, 3, 7, 4], [2, 5, 7, 7, 7, 6], [2, 7, 7, 4], [3, 7, 7, 4]]
    out = []
    for _ in range(n):
        k = rnd.randint(2, 4)
        groups = [rnd.choice(bad) if (i == 0 and rnd.random() < 0.7) or rnd.random() < 0.15 else rnd.choice(good) for i in range(k)]
        if rnd.random() < 0.5:
            g = rnd.choice(good)
            groups += [g] * rnd.randint(1, 2)
        out.append([1] + [t for g in groups for t in g])
    return out


def access_after_unproductive():
    """A nonterminal X that derives no terminal string stands in front of symbols that are reachable only through that rule:
    the documented defect is `X does not derive', not `B is not accessible'.  B is declared before or after X, X is unproductive
    directly or through a chain, the rule has a productive sibling or not, X stands first or in the middle."""
    out = []
    k = 0
    for b_first in (0, 1):
        for xkind in ("self", "chain", "mutual"):
            for sibling in (0, 1):
                for xpos in ("first", "middle"):
                    X, Y = 15, 16
                    xr = {"self": [R(X, [X, 1])], "chain": [R(X, [Y]), R(Y, [Y, 1])], "mutual": [R(X, [Y, 1]), R(Y, [X])]}[xkind]
                    arule = R(A, [X, B]) if xpos == "first" else R(A, [1, X, B])
                    body = ([R(B, [2])] if b_first else []) + ([R(A, [1])] if sibling else []) + [arule] + ([] if b_first else [R(B, [2])]) + xr
                    k += 1
                    out.append(entry("accunprod-%d" % k, [R(S, [A])] + body, maxlen=2, alphabet=[1, 2]))
    return out
