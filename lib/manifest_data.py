ENGINES = [{"name": "yv", "path": "bin/yv", "serves_properties": ["C01"],
            "kind_free_text": "TLA+ specification (spec/*.tla) model-checked by TLC; vectors replayed into the library built from /repo's working tree (harness/*.c); traces from the library validated by TLC"}]
NOTES = "Model-based verification with an explicit TLA+ specification; see DESIGN.md."
NA = {"C18": "quantitative growth claim over 1k-512k tokens in allocator bytes / hash probes: TLC cannot explore inputs of that length and a TLA+ action has no cost binding to bytes or probes (DESIGN.md section 5, C18)"}
_TB = "Trusted: TLC's evaluation of the oracle operators; the harness's tree walker/canonicaliser; exhaustive only within the stated small families (small-scope hypothesis beyond)."
CHECKS = {
 "C01": {"text": "TLC enumerates every grammar of the small families and evaluates Deriv!IsSentence (least fixed point of derivable spans) for every input up to the bound; each (grammar, input, expected verdict) vector is replayed into the real library under all lookahead x one_parse x cost x recovery settings and the return code, root and callback count are compared. Exhaustive inside the family, hence model checking of the recognition contract at small scope.",
         "ref": "5 C01", "note": _TB, "technique": "TLA+ declarative oracle (Deriv.tla) checked by TLC; TLC-generated vectors replayed into libyaep"},
}
