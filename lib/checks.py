"""Per-property checks (see DESIGN.md section 5)."""
import json, os, random, re, subprocess, time
from yvlib import *
from families import *

LEVELS = {"C12": "exploration", "C17": "fault_enumeration"}

TB = ["TLC 1.8.0 (explicit-state evaluation of the TLA+ oracle)", "CommunityModules Json/SequencesExt",
      "harness tree walker/canonicaliser (harness/yv_replay.c)", "gcc/clang, ASan+UBSan as observers", "bison 3.8"]


# ------------------------------------------------------------------ known-finding recognisers
def classify(r):
    """Map a harness record to a finding key when the record shows the signature of a recorded
    finding (input class + call site); otherwise to a generic key (=> VIOLATION)."""
    vec = r.get("vector") or {}
    rules = vec.get("rules", [])
    what = r.get("what", "")
    if r.get("e") == "Abort":
        return abort_key(r)
    if what == "TERM attribute is not a token attribute" and r.get("calls", 0) > 0:
        return "F09-term-attr-from-pl-index"
    # completeness losses of the all-parses DAG (nothing spurious): recognised by the make_parse hook
    # events of this very parse
    if what in ("translation missing from the all-parses result", "minimal translation missing from the result",
                "denoted tree is not of minimal cost"):
        if r.get("mp2", 0) > 0:
            return "F21-reused-anode-loses-alternatives"
        if r.get("mp1", 0) > 0:
            return "F19-untranslated-multi-origin"
    return mismatch_key(r)


def classify_trace(rec):
    """Known-finding recogniser for rejected trace lines (the deviation is decided by TLC, see ParseTrace.tla)."""
    if "deviation TermAttrFromPlIndex" in rec["reason"] and rec["line"]["calls"]:
        return "F09-term-attr-from-pl-index"
    if rec["reason"].startswith("C03: fewer denoted translations than derivations"):
        # completeness losses of make_parse recognised by its hook events in that very parse (every denoted tree was checked to be a translation)
        if rec["line"].get("mp2", 0) > 0:
            return "F21-reused-anode-loses-alternatives"
        if rec["line"].get("mp1", 0) > 0:
            return "F19-untranslated-multi-origin"
    return None


def only(prop):
    def f(r):
        if prop in owners(r["what"], r["cfg"], r.get("calls", 0)):
            return classify(dict(r))
        return None
    return f


def std_builds(scratch, tier, harnesses=("yv_replay",)):
    b = [build(scratch, "plain", harnesses)]
    return b


# ------------------------------------------------------------------ C01
def check_C01(res, scratch, tier, seed):
    builds = std_builds(scratch, tier)
    asan = build(scratch, "asan", ("yv_replay",))
    res.cov["trusted_base"] = TB
    res.cov["rule"] = ("TLC enumerates every rule sequence of the family (MCGram.tla), evaluates Deriv!IsSentence for every input "
                       "up to MaxLen and prints a vector; the harness replays it under lookahead {0,1,2} x one_parse x cost x recovery. "
                       "non-trivial = accepted grammar with a nullable/recursive symbol or alternative rules")
    matrix = full_matrix()
    mk = lambda codemap: (lambda vec: blocks_from_vector(vec, matrix, codemap=codemap, mems=(0, 1, 0, 2), want_trees=False))
    # F2: all grammars with <= 2 rules, |rhs| <= 2, 2 terminals, 2 nonterminals, inputs <= 4
    run_family(res, scratch, "F2", mcgram_cfg([1, 2], [11, 12], 2, 2, 4, False, [0], False, ("Emit", "Lemmas")),
               mk("ascii"), builds=builds + [asan], mine=only("C01"))
    # translation variants matter for recognition too (a NULL root for a sentence was one of the defects found)
    run_family(res, scratch, "T2v", mcgram_cfg([1], [11, 12], 2, 2, 3, False, [0, 1, 3, 4, 7], False), mk("zero"),
               builds=builds, mine=only("C01"))
    if tier == "thorough":
        run_family(res, scratch, "F3", mcgram_cfg([1, 2], [11, 12], 3, 2, 4, False, [0], False), mk("sparse"),
                   builds=builds, mine=only("C01"), timeout=3000)
        run_family(res, scratch, "F2r3", mcgram_cfg([1, 2], [11, 12], 2, 3, 5, False, [0], False), mk("dense"),
                   builds=builds, mine=only("C01"), timeout=3000)
    else:
        run_family(res, scratch, "F2r3s", mcgram_cfg([1], [11, 12], 2, 3, 5, False, [0], False), mk("sparse"),
                   builds=builds, mine=only("C01"))
    corpus_part(res, scratch, tier, seed, "C01", matrix, ("curated", "chains", "random", "wide"), builds=builds, want_trees=False)
    # (D) design: the ideal Earley sets of Earley.tla agree with the declarative oracle on a small family
    t = run_tlc(scratch, "MCEarley", mcgram_cfg([1, 2], [11, 12], 2, 2, 3, True, [0], False, invariants=("EarleyDesign",)), "earley_design", timeout=1500)
    if t["status"] == "violation":
        res.violation("spec-invariant:EarleyDesign", {"tlc_tail": t["tail"][-2500:]})
    elif t["status"] != "ok":
        raise Infra("TLC MCEarley: %s\n%s" % (t["status"], t["tail"][-2500:]))
    res.add_tlc(t)
    # (T) every Earley set the library places is a subset of the ideal set (hook SET), validated by TLC
    earley_trace_part(res, scratch, tier, seed, builds, ("C01",))
    # (T) longer inputs: verdict clauses of ParseTrace.tla
    long_trace_part(res, scratch, tier, seed, builds, ("C01",))
    # (T) long inputs of random and nested-nullable grammars, grown under the guidance of the abstract states (set core, distance
    #     pattern) they cover; recorded sets against the ideal ones; continuations generated by TLC where a recorded set lacks items
    set_sweep_part(res, scratch, tier, seed, builds, ("C01",), n=(80 if tier == "quick" else 600))
    res.cov["exhaustive"] = True
    res.assumptions = ["small-scope: exhaustive only over the stated families; the corpus (curated, chain families, seeded random) is a sample judged by TLC",
                       "vectors are computed by TLC from spec/Deriv.tla"]


def replay(path):
    """Re-execute the cases of a replay file against the library built from the working tree: harness blocks are run again,
    recorded trace lines are validated again by TLC.  Exit status 1 if a case still fails."""
    print("replay file:", path)
    d = json.load(open(path))
    print("property %s  key %s  count %s" % (d.get("property"), d.get("key"), d.get("count")))
    scratch = Scratch("replay")
    bad = 0
    try:
        b = build(scratch, "plain", ("yv_replay", "yv_api", "yv_cont"))
        for i, c in enumerate(d.get("cases", [])):
            if "line" in c and isinstance(c["line"], dict):
                ln = c["line"]
                module = "RecTrace" if "kind" in ln else "EarleyTrace" if "ev" in ln else "LookTrace" if "sets" in ln else "ParseTrace"
                extra = ("CONSTANTS\n  GrammarsR <- DummyG\n  InputsR <- DummyI\n  MatchVals = {1}\n" if module == "RecTrace"
                         else "CONSTANTS\n  GrammarsC <- DummyGL\n  TermsC = {1}\n  MaxPl = 1\n" if module == "LookTrace" else "")
                print("case %d: recorded trace line; TLC (%s) on the RECORDED observation says:" % (i, module))
                ok, rej, t = validate_trace(scratch, module, [ln], "replay%d" % i, cfg_extra=extra)
                print("   ", "rejected: %s" % rej[0][2] if rej else "accepted" if ok else "TLC did not finish")
                bad += 1 if rej else 0
                print("    (re-record it with the check to see whether the library still produces this observation)")
                continue
            blk = c.get("block") or c.get("behaviour")
            if not blk and c.get("vector"):
                vec = dict(c["vector"])
                # the record keeps the grammar; the expectation of a definition mismatch is in the record itself
                expd = [int(x) for x in re.findall(r"\d+", str(c.get("exp", "")))] if str(c.get("cfg", "")).startswith("def") else []
                expd = [x for x in expd if x != 0]
                vec.setdefault("dn", expd if "strict=0" in str(c.get("cfg", "")) else [])
                vec.setdefault("ds", expd if "strict=1" in str(c.get("cfg", "")) else vec["dn"])
                vec.setdefault("cases", [])
                cfgs = []
                if c.get("cfg", "")[:1].isdigit() or c.get("cfg", "").startswith("-"):
                    parts = [int(x) for x in c["cfg"].split(",")]
                    cfgs = [tuple(parts[:6])]
                blk = blocks_from_vector(vec, cfgs or [(0, 1, 0, 1, 3, 0), (1, 0, 0, 0, 3, 0), (2, 0, 1, 1, 3, 0)], mems=(0, 1),
                                         define_only=not vec.get("cases"), want_trees=bool(vec.get("trees_emitted")))
            if not blk:
                print("case %d: nothing executable recorded:\n%s" % (i, json.dumps(c, default=str)[:1500]))
                continue
            if str(c.get("cfg", "")).startswith("def"):
                print("    (definition case: both strictness levels are defined again; the recorded one was `%s', expected %s, got %s)" % (c.get("cfg"), c.get("exp"), c.get("got")))
            binary = "yv_api" if any(l.startswith(("DEF ", "B ")) and not l.startswith("B hash") for l in blk) and any(l.startswith("DEF ") for l in blk) \
                else "yv_cont" if any(l.split(" ")[0] in ("hcreate", "ocreate", "vcreate") for l in blk) else "yv_replay"
            recs, st = run_harness(os.path.join(b, binary), [blk], jobs=1)
            fails = [r for r in recs if r.get("k") == "mismatch" or r.get("e") == "Abort"]
            print("case %d: %s, %d lines: %s" % (i, binary, len(blk), "STILL FAILS" if fails else "passes now"))
            for r in fails[:3]:
                print("    ", json.dumps(r, default=str)[:400])
            bad += 1 if fails else 0
    finally:
        scratch.cleanup()
    return 1 if bad else 0


# ------------------------------------------------------------------ translation families (C02-C05)
def trans_families(tier):
    """(tag, cfg) list: skeletons x per-rule translation variants, trees emitted."""
    fams = [("T2a", mcgram_cfg([1], [11, 12], 2, 2, 4, False, [0, 1, 2, 3, 4, 5, 7, 8], True)),
            ("T3amb", mcgram_cfg([1], [11], 3, 2, 5, False, [1, 4, 9], True)),
            # abstract nodes of cost 0 (shared nodes whose whole subtree costs nothing; the visit flag of the cost pass is the sign of the field)
            ("T2z", mcgram_cfg([1], [11, 12], 2, 2, 3, False, [1, 4, 10, 11], True))]
    if tier == "thorough":
        fams += [("T2b", mcgram_cfg([1, 2], [11, 12], 2, 2, 4, False, [0, 1, 4, 5, 6, 7], True)),
                 ("T3c", mcgram_cfg([1], [11, 12], 3, 2, 4, False, [1, 4, 5], True))]
    return fams


def check_trans(res, scratch, tier, seed, prop, matrix, rule):
    builds = std_builds(scratch, tier)
    res.cov["trusted_base"] = TB
    res.cov["rule"] = rule
    mk = lambda vec: blocks_from_vector(vec, matrix, codemap="ascii", mems=(0, 0, 1, 2))
    for tag, cfg in trans_families(tier):
        run_family(res, scratch, tag, cfg, mk, builds=builds, mine=only(prop), timeout=3000)
    corpus_part(res, scratch, tier, seed, prop, matrix, ("curated", "amb_chains", "random_trans", "random_amb"), trees=True, builds=builds, mems=(0, 0, 1, 2))
    # inputs of 7-13 tokens: membership of every returned tree decided by TLC (Member.tla) instead of enumerating all translations
    long_trace_part(res, scratch, tier, seed, builds, (prop,))
    if prop in ("C02", "C03"):
        # the walk of make_parse itself: recorded parse states and reductions against MakeParse.tla
        mp_trace_part(res, scratch, tier, seed, builds, prop, ones=((1,) if prop == "C02" else (0,)))
    if prop in ("C03", "C05"):
        # completeness on inputs of 6-11 tokens: the number of denoted trees against the number of derivations counted by TLC
        count_trace_part(res, scratch, tier, seed, builds, (prop,))
    res.cov["exhaustive"] = True
    res.assumptions = ["small-scope: exhaustive only over the stated families",
                       "expected translation sets are computed by TLC from spec/Trans.tla (least fixed point over spans)"]


def check_C02(res, scratch, tier, seed):
    check_trans(res, scratch, tier, seed, "C02", full_matrix(ones=(1,), costs=(0, 1), recs=(0, 1)),
                "every grammar of the skeleton x translation-variant families; TLC computes Trans!Translations for every input; "
                "with one_parse the canonicalised returned tree must be a member, without ALT nodes, single NIL/ERROR exemplar, "
                "TERM code/attribute of the token at the position; non-trivial = accepted grammar with alternatives/recursion/nullables")


def check_C03(res, scratch, tier, seed):
    check_trans(res, scratch, tier, seed, "C03", full_matrix(ones=(0,), costs=(0,), recs=(0, 1)),
                "same families, all parses: the set of trees denoted by the returned DAG (one alternative per ALT occurrence) must "
                "equal Trans!Translations computed by TLC; acyclic; no ALT directly under ALT")


def check_C04(res, scratch, tier, seed):
    check_trans(res, scratch, tier, seed, "C04", full_matrix(ones=(0, 1), costs=(1,), recs=(0,)),
                "same families with the cost flag: denoted set = Trans!MinOf(Translations) (all parses) or one member of it (one parse); "
                "the own cost of every abstract node is recovered as field - sum(children fields) and is part of the compared tree, "
                "so cost fields that do not add up are rejected; in addition TLC validates (ParseTrace.tla) that the recorded result under the cost flag "
                "is the minimal-cost part of the recorded all-parses result of the same parse without the flag")
    check_C04_pairs(res, scratch, tier, seed)


def check_C04_pairs(res, scratch, tier, seed):
    """Independent of the recorded losses of the all-parses DAG: the result under the cost flag must be exactly the
    minimal-cost part (all parses) / one minimal member (one parse) of what the SAME parse denotes without the flag
    (ParseTrace.tla clause C04, lines paired by grammar, input and settings)."""
    builds = std_builds(scratch, tier)
    mx = [(la, one, cost, 0, 3, 0) for la in (0, 2) for (one, cost) in ((0, 0), (0, 1), (1, 1))]
    fams = [("T2ambP", mcgram_cfg([1], [11], 2, 2, 6, False, [1, 4, 5, 9], False), mx)]
    if tier == "thorough":
        fams += [("T3ambP", mcgram_cfg([1], [11], 3, 2, 5, False, [1, 4, 9], False), mx),
                 ("T2aP", mcgram_cfg([1], [11, 12], 2, 2, 4, False, [0, 1, 4, 5, 7], False), mx[:3])]
    for tag, cfg, m in fams:
        run_trace_family(res, scratch, tag, cfg, m, builds, props=("C04",), timeout=3000, pair_cost=True)


def check_C05(res, scratch, tier, seed):
    check_trans(res, scratch, tier, seed, "C05", full_matrix(ones=(0, 1), costs=(0,), recs=(0, 1)),
                "same families: ambiguous_p != 0 only if Deriv!NDerivCapped = 2, and always when |Trans!Translations| >= 2")


# ------------------------------------------------------------------ C10
def check_C10(res, scratch, tier, seed):
    builds = std_builds(scratch, tier)
    res.cov["trusted_base"] = TB
    res.cov["rule"] = ("every rule sequence of the family, unfiltered, defined with strict = 1 and strict = 0; expected: rc = 0 iff CFG!Defects = {} "
                       "else rc in Defects, error_code = rc, next parse refused; non-trivial = any grammar with >= 1 rule")
    mk = lambda vec: blocks_from_vector(vec, [], define_only=True)
    mine = lambda r: classify(dict(r)) if owner(r["what"], r["cfg"]) in ("C10",) else None
    run_family(res, scratch, "F2", mcgram_cfg([1, 2], [11, 12], 2, 2, 0, False, [0], False), mk, builds=builds, mine=mine)
    run_family(res, scratch, "F2e", mcgram_cfg([1], [11, 12], 2, 2, 0, True, [0, 4], False), mk, builds=builds, mine=mine)
    if tier == "thorough":
        run_family(res, scratch, "F3", mcgram_cfg([1, 2], [11, 12], 3, 2, 0, False, [0], False), mk, builds=builds, mine=mine, timeout=3000)
    # definition-level defects (MCDef.tla): terminal declarations; reserved names anywhere in the rules; malformed translations
    run_family(res, scratch, "Dterms", mcdef_cfg("NamesAll", "CodesAll", 2 if tier == "quick" else 3, "LhsPlain", "RhsPlain", 1, 1, [0]), mk, builds=builds, mine=mine, module="MCDef")
    run_family(res, scratch, "Dnames", mcdef_cfg("NamesPlain", "CodesPlain", 0, "LhsAll", "RhsAll", 2, 2, [0]), mk, builds=builds, mine=mine, module="MCDef", timeout=3000)
    run_family(res, scratch, "Dtrans", mcdef_cfg("NamesPlain", "CodesPlain", 0, "LhsPlain", "RhsPlain", 2, 2, [0, 4, 10, 11, 12, 13]), mk, builds=builds, mine=mine, module="MCDef")
    # the same definitions with every empty translation handed over as a NULL pointer instead of an empty array
    mk_null = lambda vec: blocks_from_vector(dict(vec, null_empty=True, id="n" + gid_of(vec)), [], define_only=True)
    run_family(res, scratch, "DtransN", mcdef_cfg("NamesPlain", "CodesPlain", 0, "LhsPlain", "RhsPlain", 2, 2, [0, 4, 10, 11, 12, 13]), mk_null, builds=builds, mine=mine, module="MCDef")
    res.cov["distinct_nontrivial"] = sum(f["vectors"] for f in res.notes["families"])
    corpus_part(res, scratch, tier, seed, "C10", [], ("curated", "chains", "loops", "random", "random_err"), builds=builds, define_only=True, mine=mine)
    res.cov["exhaustive"] = True


# ------------------------------------------------------------------ recovery families (C06, C08)
def recov_families(tier, prop):
    if prop == "C06":     # no recovery-cost table needed
        fams = [("E2", mcgram_cfg([1, 2], [11, 12], 2, 2, 4, True, [0], False)),
                ("E2r3", mcgram_cfg([1, 2], [11], 2, 3, 4, True, [0], False))]
        if tier == "thorough":
            fams += [("E3", mcgram_cfg([1, 2], [11, 12], 3, 2, 4, True, [0], False)),
                     ("E2l5", mcgram_cfg([1, 2], [11, 12], 2, 2, 5, True, [0], False))]
        return fams
    fams = [("E2c", mcgram_cfg([1, 2], [11, 12], 2, 2, 3, True, [0], False, recov=3)),
            ("E1r3c", mcgram_cfg([1], [11], 2, 3, 4, True, [0], False, recov=4))]
    if tier == "thorough":
        fams += [("E2c4", mcgram_cfg([1, 2], [11, 12], 2, 2, 4, True, [0], False, recov=4)),
                 ("E2r3c", mcgram_cfg([1, 2], [11], 2, 3, 4, True, [0], False, recov=4)),
                 ("E3c", mcgram_cfg([1], [11, 12], 3, 2, 4, True, [0], False, recov=4))]
    return fams


def check_recov(res, scratch, tier, seed, prop, rule):
    builds = std_builds(scratch, tier)
    res.cov["trusted_base"] = TB
    res.cov["rule"] = rule
    matrix = [(la, 1, 0, rec, m, 0) for la in (0, 1, 2) for rec, m in ((0, 3), (1, 1), (1, 2), (1, 3), (1, 4))]
    mk = lambda vec: blocks_from_vector(vec, matrix, codemap="ascii", mems=(0, 1), want_trees=False)
    for tag, cfg in recov_families(tier, prop):
        run_family(res, scratch, tag, cfg, mk, builds=builds, mine=only(prop), timeout=3000)
    corpus_part(res, scratch, tier, seed, prop, matrix, ("curated", "random_err"), recov=(0 if prop == "C06" else 3), builds=builds, want_trees=False)
    # --- (D) build_pl + error_recovery as a machine (Recovery.tla): RecFound, MinimalFirst (C08), ReportsOK (C06), EndsAccepted, and the
    #     agreement of the Earley-set oracle with the declarative one
    t = run_tlc(scratch, "MCRecovery", "SPECIFICATION RSpec\nCONSTANTS\n  GrammarsR <- CuratedR\n  InputsR <- AllInputs\n  MatchVals = {1, 2, 3}\n  MaxLen = %d\n"
                "INVARIANTS RecFound MinimalFirst ReportsOK EndsAccepted StackShape%s\nCHECK_DEADLOCK FALSE\n" % ((4, " OraclesAgree") if tier == "quick" else (6, "")),
                "recovery", timeout=3000)
    if t["status"] == "violation":
        res.violation("spec-invariant:Recovery", {"tlc_tail": t["tail"][-3000:]})
    elif t["status"] != "ok":
        raise Infra("TLC MCRecovery: %s\n%s" % (t["status"], t["tail"][-2500:]))
    res.add_tlc(t)
    # --- longer inputs, nested error levels: recorded callbacks against the Earley-set oracle, recorded search against the machine
    recovery_trace_part(res, scratch, tier, seed, builds, (prop,))
    res.cov["exhaustive"] = True


def check_C06(res, scratch, tier, seed):
    check_recov(res, scratch, tier, seed, "C06",
                "every grammar of the families with `error' allowed in rules (strict-accepted ones carry the expectation) x every input up to the bound; "
                "TLC computes Deriv!FirstOffending by the prefix-span fixed point (error as ordinary terminal); replay checks the first callback's error "
                "token and attribute, (-1,NULL,-1,NULL) with recovery off, range/attribute/monotonicity clauses with recovery on, recovery_match 1..4, lookahead 0..2")


def check_C08(res, scratch, tier, seed):
    check_recov(res, scratch, tier, seed, "C08",
                "same families: TLC computes Repair!MinSimpleRecoveryCost (back to p<=k with error expected, shift error, skip to q>=k, next recovery_match "
                "tokens incl. end of input shiftable) from Viable/IsSentence only; the first callback must not report more ignored tokens")


# ------------------------------------------------------------------ C07 (trace validation with Member/Repair)
def check_C07(res, scratch, tier, seed):
    builds = std_builds(scratch, tier)
    res.cov["trusted_base"] = TB + ["Member.tla membership fixed point evaluated by TLC on recorded trees"]
    res.cov["rule"] = ("grammars with `error' in rules x translation variants x every input up to the bound; every parse with recovery on is recorded "
                       "(callbacks + denoted trees) and TLC validates the line against ParseTrace.tla: rc 0, root non-NULL, calls >= 1 iff non-sentence, "
                       "every denoted tree is the translation of a derivation of SOME repair (error absorbs disjoint, possibly empty segments) that ignores "
                       "exactly the reported number of tokens (Member!IsRepairTranslation), and the single-segment range clause; "
                       "distinct_nontrivial counts non-sentence parses with recovery on")
    matrix = [(la, one, 0, 1, m, 0) for la in (0, 1, 2) for one in (1, 0) for m in (1, 2, 3)]
    few = [(1, 1, 0, 1, 3, 0), (0, 0, 0, 1, 1, 0), (2, 1, 0, 1, 2, 0)]
    fams = [("R2", mcgram_cfg([1, 2], [11], 2, 2, 3, True, [4], False), matrix),
            ("R2b", mcgram_cfg([1, 2], [11, 12], 2, 2, 3, True, [0], False), few),
            ("R2r3", mcgram_cfg([1], [11], 2, 3, 4, True, [4], False), few)]
    if tier == "thorough":
        fams += [("R2l4", mcgram_cfg([1, 2], [11, 12], 2, 2, 4, True, [0, 4, 7], False), few),
                 ("R2r3b", mcgram_cfg([1, 2], [11], 2, 3, 4, True, [4], False), few),
                 ("R3", mcgram_cfg([1], [11, 12], 3, 2, 4, True, [1, 4], False), few)]
    for tag, cfg, mx in fams:
        lines = run_trace_family(res, scratch, tag, cfg, mx, builds, props=("C07",), timeout=3000, classify=classify_trace)
        res.cov["distinct_nontrivial"] += sum(1 for ln in lines if ln["calls"])
    long_trace_part(res, scratch, tier, seed, builds, ("C07",))
    res.cov["exhaustive"] = True


# ------------------------------------------------------------------ C13 (ledger machine of the caller's allocator)
def check_C13(res, scratch, tier, seed):
    builds = std_builds(scratch, tier) + [build(scratch, "asan", ("yv_replay",))]
    res.cov["trusted_base"] = TB
    res.cov["rule"] = ("every parse of the translation and recovery families runs with logging parse_alloc/parse_free (mem=0), alloc-only (mem=2) or "
                       "NULL/NULL (mem=1): a free must name a live block of this parse, at most once, never NULL; every node, node name and child array "
                       "reachable from the root lies in a live block at return; yaep_free_tree leaves no live block and calls the terminal callback once per "
                       "TERM node; definition buffers are scribbled and freed right after the defining call; the library's own heap is unchanged after parse+free_tree")
    matrix = [(1, 1, 0, 1, 3, 0), (0, 0, 0, 0, 3, 0), (2, 0, 1, 1, 2, 0), (1, 1, 1, 0, 3, 0), (0, 0, 1, 1, 1, 0)]
    mk = lambda vec: blocks_from_vector(vec, matrix, codemap="ascii", mems=(0, 0, 1, 0, 2))
    mine = only("C13")
    fams = [("T2a", mcgram_cfg([1], [11, 12], 2, 2, 4, False, [0, 1, 3, 4, 5, 7, 8], True)),
            ("T3amb", mcgram_cfg([1], [11], 3, 2, 5, False, [1, 4, 9], True)),
            ("E2t", mcgram_cfg([1, 2], [11], 2, 2, 3, True, [1, 4], False))]
    if tier == "thorough":
        fams += [("T3c", mcgram_cfg([1], [11, 12], 3, 2, 4, False, [1, 4, 5], True)),
                 ("E2u", mcgram_cfg([1, 2], [11, 12], 2, 2, 4, True, [0, 4], False))]
    for tag, cfg in fams:
        run_family(res, scratch, tag, cfg, mk, builds=builds, mine=mine, timeout=3000)
    # the corpus: rules with three and more translated children, nil and terminal nodes shared between abstract nodes, longer inputs
    corpus_part(res, scratch, tier, seed, "C13", matrix, ("curated", "random_trans", "random_amb", "emptyname"), trees=False, builds=builds, mems=(0, 0, 1, 0, 2), mine=mine,
                want_trees=False)
    # call histories: two objects parsed alternately, one object redefined between parses (scripted behaviours of Api.tla, all choices)
    abuilds = [build(scratch, "plain", ("yv_replay", "yv_api"))]
    replay_api_behaviours(res, abuilds, api_pools(res, scratch), scripted_behaviours(res, scratch), ("C13",))
    res.cov["exhaustive"] = True


# ------------------------------------------------------------------ C14 / C15 (API-history machine)
def api_cfg(slots, maxhist, las, matches, dbgs, invariants, view=False, flags=(0, 1), maxfaults=0):
    return """SPECIFICATION Spec
CONSTANTS
  Slots = {%s}
  MaxHist = %d
  LaVals %s
  MatchVals = {%s}
  DbgVals = {%s}
  FlagVals = {%s}
  MaxFaults = %d
INVARIANTS %s
%sCHECK_DEADLOCK FALSE
""" % (",".join(map(str, slots)), maxhist, "<- LaWide" if min(las) < 0 else "= {%s}" % ",".join(map(str, las)), ",".join(map(str, matches)), ",".join(map(str, dbgs)),
       ",".join(map(str, flags)), maxfaults, " ".join(invariants), "VIEW View\n" if view else "")


def api_cfg_extreme(slots, maxhist, invariants):
    return """SPECIFICATION Spec
CONSTANTS
  Slots = {%s}
  MaxHist = %d
  LaVals <- LaExtreme
  MatchVals <- MatchExtreme
  DbgVals <- DbgExtreme
  FlagVals <- FlagExtreme
  MaxFaults = 0
INVARIANTS %s
CHECK_DEADLOCK FALSE
""" % (",".join(map(str, slots)), maxhist, " ".join(invariants))


def scripted_behaviours(res, scratch):
    """Behaviours of Api.tla under the two scripts, enumerated exhaustively by TLC (breadth-first)."""
    out = []
    for sp in ("SpecTwo", "SpecOne", "SpecFlags", "SpecModes"):
        cfg = api_cfg([1, 2], 12, [1], [3], [0], ["TypeOK"]).replace("SPECIFICATION Spec", "SPECIFICATION " + sp)
        ts = run_tlc(scratch, "Api", cfg, "api_" + sp, timeout=1500)
        if ts["status"] != "ok":
            raise Infra("TLC Api %s: %s\n%s" % (sp, ts["status"], ts["tail"][-3000:]))
        res.add_tlc(ts)
        out += [v["hist"] for v in tlc_vectors(ts["out"]) if "hist" in v]
    return out


def replay_api_behaviours(res, builds, pools, behs, owners, codemaps=("gap",)):
    for cm in codemaps:
        pool_lines, inputs = api_pool_lines(pools, codemap=cm)
        blocks = [api_behaviour_block("b%d" % i, h, inputs) for i, h in enumerate(behs)]
        blocks = [[b[0]] + pool_lines + b[1:] for b in blocks]
        for bdir in builds:
            recs, st = run_harness(os.path.join(bdir, "yv_api"), blocks)
            for r in recs:
                if r.get("k") == "summary":
                    res.cov["evaluations"] += r.get("ops", 0)
                elif r.get("k") == "mismatch":
                    # C14 is about every return value of every call (what a fresh object with the same definition and settings would
                    # return), so it also owns the return codes that C15 names
                    if api_owner(r["what"]) in owners or ("C14" in owners and r["what"].startswith(("parse return code", "definition return code"))):
                        res.violation("%s|%s" % (api_owner(r["what"]), r["what"]), dict(r, codemap=cm, build=os.path.basename(bdir), behaviour=_beh_of(blocks, r.get("g"))))
                    else:
                        res.notes["other_property_mismatches"] = res.notes.get("other_property_mismatches", 0) + 1
                elif r.get("e") == "Abort":
                    blk = r.get("block")
                    res.violation(abort_key(r), dict(r, codemap=cm, block=[l for l in (blk or []) if l[:2] in ("B ", "c ", "f ", "s ", "d ", "p ", "x")], build=os.path.basename(bdir)))
            res.cov["traces_validated_against_impl"] += len(blocks)


def api_pools(res, scratch):
    t = run_tlc(scratch, "Api", api_cfg([1], 1, [1], [3], [0], ["EmitPools"]), "api_pools", timeout=600)
    for v in tlc_vectors(t["out"]):
        if "defs" in v:
            return v
    raise Infra("no pools printed by TLC\n" + t["tail"][-2000:])


def run_api(res, scratch, tier, seed, prop, owners):
    builds = [build(scratch, "plain", ("yv_replay", "yv_api")), build(scratch, "asan", ("yv_replay", "yv_api"))]
    res.cov["trusted_base"] = TB
    # (D) exhaustive check of the machine's own invariants on a reduced configuration (history hidden by a VIEW)
    t = run_tlc(scratch, "Api", api_cfg([1, 2], 40, [0, 2], [3], [0], ["TypeOK", "DefinedIffOk", "OkMeansAccepted"],
                                        view=True, flags=(1,) if tier == "quick" else (0, 1)), "api_bfs", timeout=1500)
    if t["status"] == "violation":
        res.violation("spec-invariant:Api", {"tlc_tail": t["tail"][-2500:]})
    elif t["status"] != "ok":
        raise Infra("TLC Api bfs: %s\n%s" % (t["status"], t["tail"][-3000:]))
    res.add_tlc(t)
    # (V) behaviours printed by TLC in simulation mode, executed against the library
    nbeh = 1500 if tier == "quick" else 12000
    depth = 24 if tier == "quick" else 40
    slots = [1, 2] if tier == "quick" else [1, 2, 3]
    t = run_tlc(scratch, "Api", api_cfg(slots, depth, [-1, 0, 1, 2, 3], [0, 1, 3], [0, 2], ["EmitPools"], flags=(0, 1, 2)), "api_sim",
                simulate=max(1, nbeh // NCPU), depth=depth + 3, timeout=1500, extra=("-seed", str(seed)))
    if t["status"] not in ("ok", "timeout") and "states generated" not in t["tail"]:
        raise Infra("TLC Api simulate: %s\n%s" % (t["status"], t["tail"][-3000:]))
    pools, behs = None, []
    for v in tlc_vectors(t["out"]):
        if "defs" in v:
            pools = pools or v
        elif "hist" in v:
            behs.append(v["hist"])
    if pools is None or not behs:
        raise Infra("no behaviours printed by TLC\n" + t["tail"][-2000:])
    # (V) scripted behaviours, enumerated exhaustively: two objects parsed alternately; one object parsed, redefined, parsed again
    scripted = scripted_behaviours(res, scratch)
    res.notes["scripted_behaviours"] = len(scripted)
    nrandom = len(behs)
    behs += scripted
    distinct = {json.dumps([(e["op"], e.get("d"), e.get("w"), e.get("which")) for e in h]) for h in behs}
    res.cov["distinct_nontrivial"] += len(distinct)
    res.cov["rule"] = ("TLC simulates the API-history machine spec/Api.tla (%d slots, definition pool of 10 good/defective definitions (one with 170 terminals, one with a rule of 130 alternatives) by callbacks and by "
                       "description text, 11 inputs incl. undeclared codes inside a gap and outside the declared range, 4 allocator modes, all setters) and prints "
                       "behaviours of %d calls with the result every call must have given only the slot's own state; the harness executes them (plain and ASan "
                       "builds, two code assignments incl. code 0) comparing return code, error code/message, setter results, root/callbacks, allocator ledgers, "
                       "trees re-serialised after all later calls; non-trivial = distinct call sequences" % (len(slots), depth))
    for cm in ("gap", "gapzero"):
        pool_lines, inputs = api_pool_lines(pools, codemap=cm)
        # the scripted behaviours run under one code assignment in the quick tier
        use = behs if (cm == "gap" or tier != "quick") else behs[:nrandom]
        blocks = [api_behaviour_block("b%d" % i, h, inputs) for i, h in enumerate(use)]
        blocks = [[b[0]] + pool_lines + b[1:] for b in blocks]
        if len(res.cov["samples"]) < 2:
            res.cov["samples"].append({"codemap": cm, "behaviour": blocks[len(blocks) // 2][len(pool_lines) + 1:]})
        for bdir in builds:
            recs, st = run_harness(os.path.join(bdir, "yv_api"), blocks)
            for r in recs:
                if r.get("k") == "summary":
                    res.cov["evaluations"] += r.get("ops", 0)
                elif r.get("k") == "mismatch":
                    # C14 is about every return value of every call (what a fresh object with the same definition and settings would
                    # return), so it also owns the return codes that C15 names
                    if api_owner(r["what"]) in owners or ("C14" in owners and r["what"].startswith(("parse return code", "definition return code"))):
                        res.violation("%s|%s" % (api_owner(r["what"]), r["what"]), dict(r, codemap=cm, build=os.path.basename(bdir), behaviour=_beh_of(blocks, r.get("g"))))
                    else:
                        res.notes["other_property_mismatches"] = res.notes.get("other_property_mismatches", 0) + 1
                elif r.get("e") == "Abort":
                    blk = r.get("block")
                    res.violation(abort_key(r), dict(r, codemap=cm, block=[l for l in (blk or []) if l[:2] in ("B ", "c ", "f ", "s ", "d ", "p ", "x")], build=os.path.basename(bdir)))
            res.cov["traces_validated_against_impl"] += len(blocks)
    res.notes["behaviours"] = len(behs)


def _beh_of(blocks, g):
    for b in blocks:
        if b[0] == "G " + str(g):
            return [l for l in b if l[:2] in ("B ", "c ", "f ", "s ", "d ", "p ", "x")]
    return None


def api_owner(what):
    if what.startswith(("error_code", "error message", "setter", "default", "parse return code")):
        return "C15"
    if what.startswith(("parse_free", "parse_alloc", "terminal callback", "reachable node", "tree changed", "invalid parse_free")):
        return "C13"
    if what.startswith("definition return code"):
        return "C10"
    return "C14"


def check_C14(res, scratch, tier, seed):
    run_api(res, scratch, tier, seed, "C14", ("C14", "C10", "C13"))


def check_C15(res, scratch, tier, seed):
    run_api(res, scratch, tier, seed, "C15", ("C15",))


# ------------------------------------------------------------------ corpus part shared by the family checks
import itertools
import corpus as _corpus


def corpus_entries(tier, seed, kinds):
    ents = []
    if "curated" in kinds:
        ents += _corpus.curated()
    if "amb_chains" in kinds:
        ents += _corpus.ambig_chain_family() + _corpus.depth_chain_family() + _corpus.untranslated_tails()
    if "loops" in kinds:
        ents += _corpus.loop_shapes() + _corpus.loop_repeats() + _corpus.access_after_unproductive()
    if "chains" in kinds:
        ents += _corpus.chain_family(5) + _corpus.loop_via_late_nullable()
        if tier == "thorough":
            ents += _corpus.chain_family(3) + _corpus.chain_family(7)
    n = 150 if tier == "quick" else 1500
    if "random" in kinds:
        ents += _corpus.random_grammars(seed, n, maxlen=3)
    if "random_trans" in kinds:
        ents += _corpus.random_grammars(seed + 1000, n, nnts=3, nterms=2, maxrules=5, trans=True, maxlen=4)
    if "random_amb" in kinds:     # one terminal: heavily ambiguous, nullable symbols frequent
        ents += _corpus.random_grammars(seed + 3000, n, nnts=3, nterms=1, maxrules=6, maxrhs=3, trans=True, maxlen=5, empty_bias=0.15)
    if "emptyname" in kinds:
        ents += _corpus.empty_anode_names()
    if "wide" in kinds:
        ents += _corpus.wide_terminal_sets()
    if "random_err" in kinds:
        ents += _corpus.random_grammars(seed + 2000, n, nnts=3, nterms=2, maxrules=5, err=True, maxlen=3)
    return ents


def corpus_part(res, scratch, tier, seed, prop, matrix, kinds, trees=False, recov=0, builds=None, define_only=False, mems=(0, 1),
                mine=None, want_trees=True):
    ents = corpus_entries(tier, seed, kinds)
    vecs = corpus_vectors(res, scratch, "corpus_" + prop, ents, trees=trees, recov=recov, timeout=3000)
    mk = lambda vec: blocks_from_vector(vec, matrix, codemap="ascii", mems=mems, define_only=define_only, want_trees=want_trees)
    replay_vectors(res, vecs, mk, builds, mine or only(prop))


# ------------------------------------------------------------------ C09
def parse_obs(r, structure=False):
    """What the caller can observe of a parse.  The denoted trees with their costs when they could be enumerated, else the hash of
    the denotation (independent of node sharing and of the order of alternatives).  structure=True (C16: one source compiled as C
    and as C++) also compares the shape of the DAG."""
    o = {"rc": r["rc"], "root": r["root"], "amb": r["amb"], "calls": r["calls"], "over": r["over"],
         "trees": sorted(r["trees"]) if not r["over"] else [], "dhash": r.get("dhash", "")}
    if structure:
        o["thash"] = r["thash"]
    return o


def la_groups(recs, lib="c"):
    groups = {}
    for r in recs:
        if r.get("k") != "parse":
            continue
        key = (r["g"], r["w"], r["one"], r["cost"], r["rec"], r["match"])
        groups.setdefault(key, []).append({"la": r["la"], "dbg": r["dbg"], "obs": parse_obs(r)})
    return [{"id": "%s/%s/%d,%d,%d,%d" % k, "kind": "C09", "outs": v} for k, v in groups.items() if len(v) > 1]


def check_C09(res, scratch, tier, seed):
    import corpus as C
    builds = [build(scratch, "plain", ("yv_replay",))]
    res.cov["trusted_base"] = TB
    res.cov["rule"] = ("(a) every (grammar, input, one_parse, cost, recovery, match) of the corpus (curated, seeded random with and without error rules, judged by TLC) "
                       "and of long repetitive inputs and the suite's ANSI C grammar on its .i files is parsed at lookahead -3,0,1,2,7 x debug levels; the recorded "
                       "outcomes of a group must be one observation (LaTrace.tla, validated by TLC), and each must match the TLC vector where one exists; "
                       "(b) on every reuse of a cached Earley set the library (hook HIT) recomputes the set afresh and the harness compares the two item sets; "
                       "non-trivial = groups whose parses reused at least one cached set or reported a syntax error")
    las = (-3, 0, 1, 2, 7)
    flags = [(1, 0, 1, 3), (0, 0, 1, 2), (0, 1, 0, 3), (1, 1, 1, 1)]
    dbgs = (0, 3) if tier == "quick" else (-1, 0, 1, 3, 6)
    matrix = [(la, one, cost, rec, m, dbg) for (one, cost, rec, m) in flags for la in las for dbg in dbgs]
    mine = lambda r: classify(dict(r)) if owner(r["what"], r["cfg"], r.get("calls", 0)) == "C09" else None
    all_groups = []
    # --- part 1: corpus judged by TLC
    ents = corpus_entries(tier, seed, ("curated", "amb_chains", "random", "random_err", "random_trans", "wide"))
    if tier == "quick":      # every third entry of the chain families (orders of alternatives / rules are permutations of each other)
        ents = [e for i, e in enumerate(ents) if not e["id"].startswith(("ambchain", "depthchain")) or i % 3 == 0]
    vecs = corpus_vectors(res, scratch, "corpus_C09", ents, trees=False, timeout=3000)
    blocks = [b for b in (blocks_from_vector(v, matrix, mems=(0, 1), want_trees=False) for v in vecs.values()) if b]
    recs, st = run_harness(os.path.join(builds[0], "yv_replay"), blocks, args=("-t",))
    handle_c09_recs(res, recs, mine, vecs)
    all_groups += la_groups(recs)
    # --- part 2: long repetitive inputs (not judged by TLC: the spec side is the group equality and the HIT re-check)
    blocks = []
    for gid, e, inputs in C.long_inputs():
        vec = {"id": gid, "terms": e["terms"], "rules": e["rules"], "dn": [], "ds": [],
               "cases": [{"w": w, "sent": False, "nd": 0, "fo": -1} for w in inputs]}
        b = blocks_from_vector(vec, [(la, one, 0, 1, 3, 0) for la in (0, 1, 2) for one in (1, 0)][:6], mems=(1,), want_trees=False)
        b = [ln.replace("X sent=0 nd=-1", "X sent=-1") if ln.startswith("X ") else ln for ln in b]
        # distinct ids for the long inputs
        k = 0
        for i, ln in enumerate(b):
            if ln.startswith("W "):
                parts = ln.split(" ")
                parts[1] = "long%d" % k
                b[i] = " ".join(parts)
                k += 1
        blocks.append(b)
    # --- part 3: the ANSI C grammar on the suite's own inputs
    adir = scratch.path("ansic")
    p = subprocess.run([os.path.join(VERIF, "harness", "ansic_prep.sh"), adir], stdout=subprocess.PIPE, stderr=subprocess.STDOUT, text=True,
                       env=dict(os.environ, REPO=REPO))
    if p.returncode != 0:
        raise Infra("ansic_prep failed: " + p.stdout[-2000:])
    desc = open(os.path.join(adir, "ansic_desc.txt"), "rb").read().hex()
    files = ["tokens_compare_parsers_test.i.txt"] + (["tokens_test.i.txt", "tokens_compare_parsers_test1.i.txt"] if tier == "thorough" else [])
    # one object, one definition, several different long inputs in a row at every lookahead level (what the
    # grammar object keeps between parses - e.g. the dynamic lookahead contexts of level 2 - is reused)
    b = ["G ansic", "DT 1 0 " + desc]
    for f in files:
        toks = open(os.path.join(adir, f)).read().split()
        b += ["W %s %d %s" % (f, len(toks), " ".join(toks)), "X sent=-1"] + ["P %d 1 0 1 3 0 1" % la for la in (2, 0, 1)]
        # the same file with a few tokens deleted: recoveries inside a big parse list
        t2 = [t for i, t in enumerate(toks) if i % 997 != 500]
        b += ["W %s_err %d %s" % (f, len(t2), " ".join(t2)), "X sent=-1"] + ["P %d 1 0 1 3 0 1" % la for la in (2, 0, 1)]
        # and reversed halves, so that known contexts are met in another order
        t3 = toks[len(toks) // 2:] + toks[:len(toks) // 2]
        b += ["W %s_swap %d %s" % (f, len(t3), " ".join(t3)), "X sent=-1"] + ["P %d 1 0 1 3 0 1" % la for la in (2, 0, 1)]
    blocks.append(b)
    recs, st = run_harness(os.path.join(builds[0], "yv_replay"), blocks, args=("-t",), timeout=1500)
    handle_c09_recs(res, recs, mine, {})
    all_groups += la_groups(recs)
    # --- cache stress: inputs that make the parser go back and then meet the same (set, terminal) pairs again; every reuse is re-computed
    #     afresh by the hook and compared (second sentence of C09), outcomes grouped by lookahead level as above
    cur = {e["id"]: e for e in _corpus.curated()}
    sb = dict(cur["brackets"], inputs=_corpus.bracket_fragment_inputs(seed, 1500 if tier == "quick" else 15000))
    ss = dict(cur["staleplace"], inputs=[list(w) for k in range(4, 9 if tier == "quick" else 11) for w in itertools.product([1, 2, 3], repeat=k)])
    sblocks = []
    for e in (sb, ss):
        for i in range(0, len(e["inputs"]), 500):
            vec = {"id": e["id"], "terms": e["terms"], "rules": e["rules"], "dn": [], "ds": [], "cases": [{"w": w, "sent": False, "nd": 0, "fo": -1} for w in e["inputs"][i:i + 500]]}
            bl = blocks_from_vector(vec, [(0, 1, 0, 1, 1, 0), (0, 1, 0, 1, 2, 0), (1, 1, 0, 1, 3, 0)], mems=(1,), want_trees=False)
            sblocks.append([ln.replace("X sent=0 nd=-1", "X sent=-1") if ln.startswith("X ") else ln for ln in bl])
    recs, st = run_harness(os.path.join(builds[0], "yv_replay"), sblocks, args=("-s",))
    handle_c09_recs(res, recs, mine, {})
    # --- (D) the cache as a state machine (Cache.tla): a reused result is the set a fresh computation gives
    def cache_cfg(maxpl, rec, maxrec):
        return ("SPECIFICATION Spec\nCONSTANTS\n  GrammarsC <- Curated\n  TermsC = {1, 2, 3}\n  MaxPl = %d\n  WithRecovery = %s\n  MaxRec = %d\n"
                "  Versioned = TRUE\nINVARIANTS CacheSound\nCHECK_DEADLOCK FALSE\n" % (maxpl, "TRUE" if rec else "FALSE", maxrec))
    for tag, cfg in (("cache_norec", cache_cfg(12 if tier == "quick" else 14, False, 0)), ("cache_rec", cache_cfg(7 if tier == "quick" else 9, True, 2))):
        t = run_tlc(scratch, "MCCache", cfg, tag, timeout=3000)
        if t["status"] == "violation":
            res.violation("spec-invariant:CacheSound:" + tag, {"tlc_tail": t["tail"][-3000:]})
        elif t["status"] != "ok":
            raise Infra("TLC MCCache %s: %s\n%s" % (tag, t["status"], t["tail"][-2500:]))
        res.add_tlc(t)
    # --- (D) static lookahead pruning as a machine in lock-step with the unpruned one (Look.tla): same transitions, same verdict
    t = run_tlc(scratch, "MCLook", "SPECIFICATION LSpec\nCONSTANTS\n  GrammarsC <- CuratedL\n  TermsC = {1, 2, 3}\n  MaxPl = %d\nINVARIANTS LookSound\nCHECK_DEADLOCK FALSE\n"
                % (10 if tier == "quick" else 13), "look", timeout=3000)
    if t["status"] == "violation":
        res.violation("spec-invariant:LookSound", {"tlc_tail": t["tail"][-3000:]})
    elif t["status"] != "ok":
        raise Infra("TLC MCLook: %s\n%s" % (t["status"], t["tail"][-2500:]))
    res.add_tlc(t)
    # --- (D) dynamic lookahead (level 2: situations with contexts merged per set) the same way (Look2.tla)
    t = run_tlc(scratch, "MCLook2", "SPECIFICATION Spec2\nCONSTANTS\n  GrammarsC <- CuratedL\n  TermsC = {1, 2, 3}\n  MaxPl = %d\nINVARIANTS Look2Sound ContextWithinFollow\nCHECK_DEADLOCK FALSE\n"
                % (10 if tier == "quick" else 13), "look2", timeout=3000)
    if t["status"] == "violation":
        res.violation("spec-invariant:Look2Sound", {"tlc_tail": t["tail"][-3000:]})
    elif t["status"] != "ok":
        raise Infra("TLC MCLook2: %s\n%s" % (t["status"], t["tail"][-2500:]))
    res.add_tlc(t)
    # --- the sets recorded at levels 1 and 2 are the sets of the two pruning machines (LookTrace.tla; drift only)
    look_trace_part(res, scratch, tier, seed, builds)
    # --- the sets reused from the cache and their fresh re-computations are valid Earley sets (EarleyTrace.tla)
    earley_trace_part(res, scratch, tier, seed + 1, builds, ("C09",), kinds=("curated", "random", "random_err", "random_trans"))
    # --- TLC validates the groups
    ok, rej, tt = validate_trace(scratch, "LaTrace", all_groups, "latrace", timeout=1500)
    if not ok:
        raise Infra("LaTrace validation did not finish: " + tt["tail"][-2000:])
    res.cov["states"] += tt.get("distinct", 0)
    res.cov["transitions"] += tt.get("states", 0)
    res.cov["traces_validated_against_impl"] += len(all_groups)
    for (lno, gid, reasons) in rej:
        g = all_groups[lno - 1]
        res.violation("trace|" + reasons[0], {"group": g["id"], "outs": g["outs"][:6]})
    res.cov["samples"].append({"group": all_groups[len(all_groups) // 2]} if all_groups else "none")
    res.notes["groups"] = len(all_groups)


def handle_c09_recs(res, recs, mine, vecs):
    for r in recs:
        if r.get("k") == "summary":
            res.cov["evaluations"] += r["parses"]
            for key in ("hits", "sets", "recs"):
                res.notes[key] = res.notes.get(key, 0) + r.get(key, 0)
        elif r.get("k") == "mismatch":
            key = mine(r)
            if key:
                res.violation(key, dict(r))
            else:
                res.notes["other_property_mismatches"] = res.notes.get("other_property_mismatches", 0) + 1
        elif r.get("e") == "Abort":
            res.violation(abort_key(r), dict(r, block=(r.get("block") or [])[:3]))
        elif r.get("k") == "parse" and (r.get("calls") or False):
            res.cov["distinct_nontrivial"] += 1


# ------------------------------------------------------------------ C19 (containers)
def cont_cfg(which, univ, hashop, sizes, chunks, maxops, invariants=(), view=False):
    return """SPECIFICATION Spec
CONSTANTS
  Univ = {%s}
  HashOf <- %s
  InitSizes = {%s}
  Chunks = {%s}
  MaxOps = %d
  Which = "%s"
%s%sCHECK_DEADLOCK FALSE
""" % (",".join(map(str, univ)), hashop, ",".join(map(str, sizes)), ",".join(map(str, chunks)), maxops, which,
       ("INVARIANTS " + " ".join(invariants) + "\n") if invariants else "", "VIEW View\n" if view else "")


HASHFN = {"HashId": lambda e: e, "HashColl": lambda e: (e % 2) * 7 + 3, "HashSpread": lambda e: e * 37 + 11,
          "HashSq9": lambda e: {1: 9, 2: 3, 3: 6, 4: 72, 5: 12}.get(e, 30), "HashSq25": lambda e: {1: 25, 2: 5, 3: 10, 4: 15, 5: 20}.get(e, 50)}


def cont_block(bid, which, hashop, univ, hist):
    hx = lambda s: "".join("%02x" % b for b in s)
    lines = ["G " + bid, "B " + bid]
    if which == "hash":
        for e in univ:
            lines.append("H %d %d" % (e, HASHFN[hashop](e)))
    for e in hist:
        op = e["op"]
        if op == "hcreate":
            lines.append("hcreate %d" % e["size"])
        elif op in ("hinsert", "hfind"):
            lines.append("%s %d %d" % (op, e["e"], 1 if e["was"] else 0))
        elif op == "hremove":
            lines.append("hremove %d" % e["e"])
        elif op == "hempty":
            lines.append("hempty")
        elif op in ("ocreate", "vcreate"):
            lines.append("%s %d" % (op, e["size"]))
        elif op in ("oaddmem", "oexpand", "oaddbyte", "oaddstring", "vaddmem", "vexpand", "vaddbyte", "vaddstring"):
            lines.append("%s %d %d" % (op, e["n"], e["b"]))
        elif op in ("oshorten", "vshorten"):
            lines.append("%s %d" % (op, e["n"]))
        elif op in ("onullify", "ofinish", "oempty", "vnullify", "vtailor"):
            lines.append(op)
        if "obs" in e:
            o = e["obs"]
            lines.append("obs %d %d %s" % (o["size"], o["count"], ",".join(map(str, o["present"]))))
        if "top" in e:
            lines.append("otop " + hx(e["top"]))
            lines.append("onfin %d" % e["nfin"])
            if "nseg" in e:
                lines.append("onseg %d" % e["nseg"])
        if "bytes" in e:
            lines.append("vbytes " + hx(e["bytes"]))
    lines.append("x")
    return lines


def check_C19(res, scratch, tier, seed):
    builds = [build(scratch, "plain", ("yv_cont",)), build(scratch, "asan", ("yv_cont",))]
    res.cov["trusted_base"] = TB[:2] + ["harness/yv_cont.c (reads back all contents after every operation)", "gcc/clang, ASan+UBSan as observers"]
    res.cov["rule"] = ("spec/Cont.tla holds abstract contents and representation of the three containers; TLC checks exhaustively (all operation sequences up to "
                       "the depth, representation states merged by a VIEW) that the representation denotes the contents (hash: slots vs set, exact lookups, counts, "
                       "terminating probes under colliding/identity/spread hash functions; stack: finished objects never change, top fits; vlo: bytes fit), and prints "
                       "simulated behaviours with the expected observation after every operation; yv_cont executes them on the C functions/macros and the C++ classes "
                       "(plain + ASan), reading back every universe element, all bytes, every finished object's address and bytes, sizes and segment counts; "
                       "non-trivial = behaviours with at least one expansion, removal or finished object")
    univ = [1, 2, 3, 4, 5, 6]
    depth_bfs = 7 if tier == "quick" else 9
    nsim = 40 if tier == "quick" else 400
    depth_sim = 30 if tier == "quick" else 60
    configs = []
    for hashop in ("HashColl", "HashId", "HashSpread"):
        configs.append(("hash", hashop, [0, 1, 5], [1], ["HashAbs", "HashNoDup", "HashFindExact", "HashCount", "HashSearchTerminates"]))
    # requested sizes just below the square of a prime, with hash values that would trap a probe sequence in a table of that size
    configs.append(("hash", "HashSq9", [7], [1], ["HashAbs", "HashNoDup", "HashFindExact", "HashCount", "HashSearchTerminates"]))
    configs.append(("hash", "HashSq25", [22, 23], [1], ["HashAbs", "HashNoDup", "HashFindExact", "HashCount", "HashSearchTerminates"]))
    # initial lengths that are not multiples of the alignment, small chunks to end an object inside the last word
    configs.append(("os", "HashId", [0, 8, 13, 16, 100], [1, 3, 7, 20, 600], ["OsFits"]))
    configs.append(("vlo", "HashId", [0, 1, 8, 13], [1, 3, 7, 20, 600], ["VloFits"]))
    blocks = []
    nontriv = 0
    for which, hashop, sizes, chunks, invs in configs:
        tag = "%s_%s" % (which, hashop)
        # (D) exhaustive
        t = run_tlc(scratch, "Cont", cont_cfg(which, univ[:5], hashop, sizes, chunks if which == "hash" else chunks[:3], depth_bfs if which == "hash" else depth_bfs - 2, invs, view=True), tag + "_bfs", timeout=1500)
        if t["status"] == "violation":
            res.violation("spec-invariant:Cont:" + tag, {"tlc_tail": t["tail"][-2500:]})
        elif t["status"] != "ok":
            raise Infra("TLC Cont %s: %s\n%s" % (tag, t["status"], t["tail"][-3000:]))
        res.add_tlc(t)
        # (V) simulated behaviours
        t = run_tlc(scratch, "Cont", cont_cfg(which, univ, hashop, sizes, chunks, depth_sim), tag + "_sim", simulate=nsim * (1 if which == "hash" else 2), depth=depth_sim + 3,
                    timeout=1500, extra=("-seed", str(seed)))
        k = 0
        for v in tlc_vectors(t["out"]):
            if "hist" not in v:
                continue
            b = cont_block("%s%d" % (tag, k), which, hashop, univ, v["hist"])
            blocks.append(b)
            k += 1
            if any(e["op"] in ("hremove", "ofinish", "vtailor") for e in v["hist"]):
                nontriv += 1
            if k == 1:
                res.cov["samples"].append({"behaviour": b[:40]})
        if k == 0:
            raise Infra("no behaviours from TLC for %s\n%s" % (tag, t["tail"][-1500:]))
    res.cov["distinct_nontrivial"] = nontriv
    for bdir in builds:
        for suffix in ("", "xx"):
            recs, st = run_harness(os.path.join(bdir, "yv_cont" + suffix), blocks)
            for r in recs:
                if r.get("k") == "summary":
                    res.cov["evaluations"] += r.get("ops", 0)
                elif r.get("k") == "mismatch" and r["what"] in ("hash table size", "object stack segments allocated"):
                    # the representation (growth policy) differs from the model's: drift, not a violation - the property is about contents
                    res.notes["representation_drift"] = res.notes.get("representation_drift", 0) + 1
                    res.notes.setdefault("representation_drift_kinds", {})[r["what"]] = res.notes.get("representation_drift_kinds", {}).get(r["what"], 0) + 1
                elif r.get("k") == "mismatch":
                    res.violation("C19|" + r["what"], dict(r, build=os.path.basename(bdir), behaviour=next((b for b in blocks if b[0] == "G " + r["g"]), None)))
                elif r.get("e") == "Abort":
                    res.violation(abort_key(r), dict(r, build=os.path.basename(bdir), block=(r.get("block") or [])[:60]))
            res.cov["traces_validated_against_impl"] += len(blocks)


# ------------------------------------------------------------------ C17 (allocation failure at every point)
LEVELS["C17"] = "fault_enumeration"


def check_C17(res, scratch, tier, seed):
    builds = [build(scratch, "plain", ("yv_replay", "yv_api")), build(scratch, "asan", ("yv_replay", "yv_api"))]
    res.cov["trusted_base"] = TB + ["link-time wrapping of malloc/calloc/realloc/free (harness/yv_common.h) counts and fails library requests"]
    depth = 10 if tier == "quick" else 14
    nbeh = 6000 if tier == "quick" else 40000
    t = run_tlc(scratch, "Api", api_cfg([1, 2], depth, [2], [3], [0], ["EmitPools"], maxfaults=1), "api_fault",
                simulate=max(1, nbeh // NCPU), depth=depth + 3, timeout=1500, extra=("-seed", str(seed)))
    pools, behs = None, []
    for v in tlc_vectors(t["out"]):
        if "defs" in v:
            pools = pools or v
        elif "hist" in v and any(e.get("fault") for e in v["hist"]):
            behs.append(v["hist"])
    if pools is None or not behs:
        raise Infra("no fault behaviours printed by TLC\n" + t["tail"][-2000:])
    # distinct fault scenarios: (operation, definition/input/mode, what happened before on that slot)
    seen, uniq = set(), []
    for h in behs:
        f = next(e for e in h if e.get("fault"))
        key = json.dumps([f["op"], f.get("d"), f.get("w"), f.get("mode"), f.get("text"), f.get("strict"),
                          [(e["op"], e.get("d"), e.get("w")) for e in h if e.get("s") == f["s"] and not e.get("fault")][-3:]])
        if key not in seen:
            seen.add(key)
            uniq.append(h)
    # history-dependent cleanup code is the risk: prefer scenarios in which the faulted call follows successful
    # parses, in particular all-parses / cost parses, and definitions on the same or another object
    def richness(h):
        fi = next(i for i, e in enumerate(h) if e.get("fault"))
        pre = h[:fi]
        ok_parses = [e for e in pre if e["op"] == "parse" and e["rcs"] == [0]]
        f = h[fi]
        return (sum(1 for e in ok_parses if e["one"] == 0 or e["cost"] == 1) * 3 + len(ok_parses) + sum(1 for e in pre if e["op"] == "define")
                + (2 if len({e.get("s") for e in pre}) > 1 else 0) + (6 if f.get("d") in (9, 10) else 0) + (3 if f.get("d") == 10 and f.get("text") else 0))      # the big definitions have the most allocation points
    uniq.sort(key=richness, reverse=True)
    maxscen = 80 if tier == "quick" else 500
    uniq = uniq[:maxscen]
    pool_lines, inputs = api_pool_lines(pools, codemap="gap")
    res.cov["rule"] = ("TLC simulates Api.tla with one allocation failure per behaviour (create, definition by callbacks or text, parse with caller's or default "
                       "allocator; a second object alive in many of them); for every distinct fault scenario the replay first counts the library's memory requests N "
                       "of the faulted call and then re-executes the behaviour once per chosen k <= N with the k-th request failing (quick: first/last 10, every "
                       "n-th, and the first and last request of every distinct allocation site by call stack; thorough: every k): the call must return NULL / YAEP_NO_MEMORY (error_code too), nothing may crash (plain + ASan), the object must be "
                       "freeable, and all later calls on the OTHER object must still return exactly what the specification says; "
                       "non-trivial = (scenario, k) pairs in which the failure was really injected")
    total_inj = 0
    for bdir in builds:
        # pass 1: count requests
        blocks = [[("G s%d" % i)] + pool_lines + api_behaviour_block("s%d" % i, h, inputs, fault_k=10 ** 8)[1:] for i, h in enumerate(uniq)]
        recs, st = run_harness(os.path.join(bdir, "yv_api"), blocks)
        allocs, sitek = {}, {}
        for r in recs:
            if r.get("k") == "fault":
                allocs[r["g"]] = r["allocs"]
                sitek[r["g"]] = r.get("sitek", [])
        blocks2 = []
        for i, h in enumerate(uniq):
            n = allocs.get("s%d" % i, 0)
            if tier == "thorough":
                ks = range(1, n + 1)
            else:
                # first/last ten, every n-th, and the first and the last request of every distinct allocation site (by call stack)
                ks = sorted(set(list(range(1, min(n, 10) + 1)) + list(range(max(1, n - 9), n + 1)) + list(range(1, n + 1, max(1, n // 25)))
                                + [k for k in sitek.get("s%d" % i, []) if 1 <= k <= n][:120]))
            for k in ks:
                bid = "s%d_k%d" % (i, k)
                blocks2.append([("G " + bid)] + pool_lines + api_behaviour_block(bid, h, inputs, fault_k=k)[1:])
        recs, st = run_harness(os.path.join(bdir, "yv_api"), blocks2)
        for r in recs:
            if r.get("k") == "summary":
                res.cov["evaluations"] += r.get("ops", 0)
            elif r.get("k") == "fault":
                total_inj += r["injected"]
            elif r.get("k") == "mismatch":
                res.violation("C17|" + r["what"], dict(r, build=os.path.basename(bdir), behaviour=_beh_of(blocks2, r.get("g"))))
            elif r.get("e") == "Abort":
                blk = r.get("block")
                beh = [l for l in (blk or []) if l[:2] in ("B ", "c ", "f ", "s ", "d ", "p ", "x", "K ")]
                fop = next((beh[i + 1].split(" ")[0] for i, l in enumerate(beh) if l.startswith("K ") and i + 1 < len(beh)), "?")
                res.violation("%s:fault-in-%s" % (abort_key(r), {"c": "create", "d": "define", "p": "parse"}.get(fop, fop)), dict(r, block=beh, build=os.path.basename(bdir)))
        res.cov["traces_validated_against_impl"] += len(blocks2)
    res.cov["distinct_nontrivial"] = total_inj
    res.cov["samples"].append({"scenario": [l for l in api_behaviour_block("s0", uniq[0], inputs, fault_k=7) if not l.startswith("G ")]})
    res.notes["scenarios"] = len(uniq)


# ------------------------------------------------------------------ C16 (C++ interface = C interface)
def check_C16(res, scratch, tier, seed):
    builds = [build(scratch, "plain", ("yv_replay", "yv_api"))]
    asan = build(scratch, "asan", ("yv_replay", "yv_api"))
    res.cov["trusted_base"] = TB
    res.cov["rule"] = ("the same source of every harness is built against libyaep (C functions) and libyaep++ (class yaep only); (1) the corpus vectors judged by TLC "
                       "(curated, random, with error rules, with translations) and a small enumerated family are parsed through both, under a configuration matrix, "
                       "and TLC validates (LaTrace.tla, kind C16) that each pair of recorded outcomes - return code, callbacks, ambiguity flag, denoted trees with "
                       "costs, DAG hash, and for definitions return code and error message - is one observation; the C++ outcomes are also compared with the TLC "
                       "vectors; (2) the API behaviours of Api.tla are executed through class yaep (plain and ASan) against the same specification; "
                       "non-trivial = pairs with a syntax error, an ambiguity or a failing definition")
    matrix = [(la, one, cost, rec, 3, 0) for la in (0, 1, 2) for (one, cost, rec) in ((1, 0, 1), (0, 0, 0), (0, 1, 1), (1, 1, 0))]
    ents = corpus_entries(tier, seed, ("curated", "chains", "random", "random_err", "random_trans"))
    vecs = corpus_vectors(res, scratch, "corpus_C16", ents, trees=True, timeout=3000)
    blocks = []
    for v in vecs.values():
        b = blocks_from_vector(v, matrix, mems=(0, 1))
        if b:
            blocks.append(b)
        else:    # rejected definitions: both strictness levels, error messages compared
            blocks.append(blocks_from_vector(v, [], define_only=True))
    outs = {}
    mine_cpp = lambda r: classify(dict(r))
    for lib, suffix in (("c", ""), ("c++", "xx")):
        recs, st = run_harness(os.path.join(builds[0], "yv_replay" + suffix), blocks, args=("-t",))
        for r in recs:
            if r.get("k") == "summary":
                res.cov["evaluations"] += r["parses"] + r["defs"]
            elif r.get("k") == "parse":
                outs.setdefault(("p", r["g"], r["w"], r["la"], r["one"], r["cost"], r["rec"], r["match"]), []).append({"lib": lib, "obs": parse_obs(r, structure=True)})
            elif r.get("k") == "def":
                outs.setdefault(("d", r["g"], r["cfg"]), []).append({"lib": lib, "obs": {"rc": r["rc"], "err": r["err"], "msg": r["msg"]}})
            elif r.get("k") == "mismatch" and lib == "c++":
                key = classify(dict(r))
                # what the C library also does wrong is judged by the property that owns it; C16 reports C++-only deviations through the pairs below
                res.notes["cxx_vector_mismatches"] = res.notes.get("cxx_vector_mismatches", 0) + 1
            elif r.get("e") == "Abort":
                res.violation(abort_key(r) + ":" + lib, dict(r, block=(r.get("block") or [])[:30]))
    groups = [{"id": "/".join(map(str, k)), "kind": "C16", "outs": v} for k, v in outs.items()]
    unpaired = [g for g in groups if len(g["outs"]) != 2]
    for g in unpaired[:20]:
        res.violation("C16|outcome recorded for one library only", {"group": g["id"], "outs": g["outs"]})
    groups = [g for g in groups if len(g["outs"]) == 2]
    ok, rej, tt = validate_trace(scratch, "LaTrace", groups, "cxxpairs", timeout=1500)
    if not ok:
        raise Infra("LaTrace (C16) validation did not finish: " + tt["tail"][-2000:])
    res.cov["states"] += tt.get("distinct", 0)
    res.cov["transitions"] += tt.get("states", 0)
    res.cov["traces_validated_against_impl"] += len(groups)
    for (lno, gid, reasons) in rej:
        res.violation("trace|" + reasons[0], {"group": groups[lno - 1]["id"], "outs": groups[lno - 1]["outs"]})
    res.cov["distinct_nontrivial"] += sum(1 for g in groups if g["outs"][0]["obs"].get("calls") or g["outs"][0]["obs"].get("amb") or g["outs"][0]["obs"].get("msg"))
    res.cov["samples"].append({"pair": groups[len(groups) // 3]})
    # (2) API behaviours through class yaep
    save = dict(res.cov)
    run_api_cxx(res, scratch, tier, seed, [builds[0], asan])


def run_api_cxx(res, scratch, tier, seed, builds):
    nbeh = 800 if tier == "quick" else 6000
    depth = 24
    t = run_tlc(scratch, "Api", api_cfg([1, 2], depth, [-1, 0, 1, 2, 3], [0, 1, 3], [0, 2], ["EmitPools"]), "api_sim_cxx",
                simulate=max(1, nbeh // NCPU), depth=depth + 3, timeout=1500, extra=("-seed", str(seed + 7)))
    pools, behs = None, []
    for v in tlc_vectors(t["out"]):
        if "defs" in v:
            pools = pools or v
        elif "hist" in v:
            behs.append(v["hist"])
    if pools is None or not behs:
        raise Infra("no behaviours printed by TLC\n" + t["tail"][-2000:])
    pool_lines, inputs = api_pool_lines(pools, codemap="gap")
    blocks = [[("G b%d" % i)] + pool_lines + api_behaviour_block("b%d" % i, h, inputs)[1:] for i, h in enumerate(behs)]
    for bdir in builds:
        recs, st = run_harness(os.path.join(bdir, "yv_apixx"), blocks)
        for r in recs:
            if r.get("k") == "summary":
                res.cov["evaluations"] += r.get("ops", 0)
            elif r.get("k") == "mismatch":
                res.violation("C16|class yaep: " + r["what"], dict(r, build=os.path.basename(bdir), behaviour=_beh_of(blocks, r.get("g"))))
            elif r.get("e") == "Abort":
                blk = r.get("block")
                res.violation(abort_key(r) + ":c++", dict(r, block=[l for l in (blk or []) if l[:2] in ("B ", "c ", "f ", "s ", "d ", "p ", "x")], build=os.path.basename(bdir)))
        res.cov["traces_validated_against_impl"] += len(blocks)


# ------------------------------------------------------------------ C11 (description text)
def mcdescr_cfg(terms, nts, maxrules, maxrhs, maxlen, useerr, variants, styles, trees=True):
    base = mcgram_cfg(terms, nts, maxrules, maxrhs, maxlen, useerr, variants, trees, invariants=("DEmit", "PrintedIsValid"))
    base = base.replace("SPECIFICATION Spec", "SPECIFICATION DSpec").replace("INVARIANTS", "  Styles = {%s}\nINVARIANTS" % ",".join(map(str, styles)))
    return base


def check_C11(res, scratch, tier, seed):
    builds = [build(scratch, "plain", ("yv_replay",)), build(scratch, "asan", ("yv_replay",))]
    res.cov["trusted_base"] = TB
    res.cov["rule"] = ("(1) every rule sequence of a small family x translation variants is printed by Descr!PrintDescr in 9 lexical styles (explicit codes; character "
                       "constants; free codes from 256; tabs/comments/newlines, repeated declarations with the same code, with no code at all, with a code only in one of the two, omitted default cost and semicolons, alternatives with `|'; "
                       "declarations after the rules); TLC checks that each text follows the manual's grammar (character-level Lex + DescrG through Deriv!IsSentence) and "
                       "prints the text with the raw definition it denotes and that definition's expected observables; the object is defined FROM THE TEXT and must "
                       "return the definition's result and behave like it on every input (which pins terminal codes, rules, translations and costs). "
                       "(2) seeded character mutations and truncations of valid texts are judged by TLC (SyntaxOK) and must be refused with a documented code and "
                       "a line number inside the text when they are not valid, on plain and ASan builds; non-trivial = texts with >= 1 rule and a translation or code clause")
    matrix = [(1, 1, 0, 1, 3, 0), (0, 0, 0, 0, 3, 0), (2, 0, 1, 0, 3, 0)]
    fams = [("D2", mcdescr_cfg([1, 2], [11], 2, 2, 3, False, [0, 3, 4, 5], [0, 1, 2, 3, 4, 5])),
            ("D2r", mcdescr_cfg([1, 2], [11], 2, 2, 2, False, [0, 4], [6, 7, 8])),   # a terminal declared with a code and again without one; character constants above 127
            ("D1e", mcdescr_cfg([1, 2], [11, 12], 1, 3, 2, True, [1, 4, 7, 9], [0, 1, 3]))]
    if tier == "thorough":
        fams += [("D2b", mcdescr_cfg([1, 2], [11, 12], 2, 2, 3, False, [1, 5, 8], [0, 1, 3]))]
    texts = []
    for tag, cfg in fams:
        t = run_tlc(scratch, "MCDescr", cfg, tag, timeout=3000)
        if t["status"] == "violation":
            res.violation("spec-invariant:" + tag, {"tlc_tail": t["tail"][-2500:]})
        elif t["status"] != "ok":
            raise Infra("TLC %s: %s\n%s" % (tag, t["status"], t["tail"][-3000:]))
        res.add_tlc(t)
        blocks, vecs = [], {}
        for vec in tlc_vectors(t["out"]):
            vec["trees_emitted"] = True
            text = bytes(vec["text"])
            vec["id"] = "%s-%s-s%d" % (tag, hashlib.sha1(text).hexdigest()[:10], vec["style"])
            hx = text.hex()
            b = blocks_from_vector(vec, matrix, codemap="dense", mems=(0, 1), text_hex=hx)
            if b is None:
                b = blocks_from_vector(vec, [], codemap="dense", define_only=True, text_hex=hx)
            blocks.append(b)
            vecs[vec["id"]] = vec
            texts.append(text)
            if any(r["an"] or r["t"] for r in vec["rules"]):
                res.cov["distinct_nontrivial"] += 1
            if len(res.cov["samples"]) < 3 and vec["style"] == 3 and len(vec["rules"]) == 2:
                res.cov["samples"].append({"text": text.decode(), "denotes": {"terms": vec["terms"], "rules": [rule_line(r) for r in vec["rules"]]}})
        res.notes.setdefault("families", []).append({"tag": tag, "texts": len(blocks), "tlc_distinct_states": t["distinct"]})
        mine = lambda r: classify(dict(r)) if owner(r["what"], r["cfg"], r.get("calls", 0)) in ("C10", "C11", "C01", "C02", "C03", "C04", "C05", "C15") else None
        for bdir in builds[:1] if tier == "quick" else builds:
            recs, st = run_harness(os.path.join(bdir, "yv_replay"), blocks)
            for r in recs:
                if r.get("k") == "summary":
                    res.cov["evaluations"] += r["parses"] + r["defs"]
                elif r.get("k") == "mismatch":
                    v = vecs.get(r.get("g")) or {}
                    rec = dict(r, text=bytes(v.get("text", [])).decode(errors="replace"), denotes=[rule_line(x) for x in v.get("rules", [])], terms=v.get("terms"))
                    key = classify(dict(r))
                    if key.startswith("F"):
                        res.notes["known_in_other_property"] = res.notes.get("known_in_other_property", 0) + 1
                    else:
                        res.violation("C11|text does not behave like the denoted definition: " + r["what"], rec)
                elif r.get("e") == "Abort":
                    res.violation(abort_key(r), dict(r, block=(r.get("block") or [])[:12]))
            res.cov["traces_validated_against_impl"] += len(blocks)
    # (1b) texts of definitions with translation defects found while the rules are being read (MCDef.tla): the description parser must hand
    #      over what it has read, the defect code must come back, and the NEXT text (the blocks follow each other in one process and on
    #      one object) must be read from its beginning
    def mk_text(vec):
        raw = {"terms": vec["terms"], "rules": vec["rules"]}
        return blocks_from_vector(dict(vec, id="x" + gid_of(vec)), [], codemap="ascii", define_only=True, text_hex=descr_text(raw, CODEMAPS["ascii"]).encode().hex())
    run_family(res, scratch, "DtransT", mcdef_cfg("NamesPlain", "CodesPlain", 0, "LhsPlain", "RhsPlain", 2, 2, [0, 4, 12, 13]), mk_text, builds=builds[:1],
               mine=lambda r: classify(dict(r)) if owner(r["what"], r["cfg"], r.get("calls", 0)) in ("C10", "C11", "C15") else None, module="MCDef")
    # (2) mutations judged by TLC
    rnd = random.Random(seed)
    muts = []
    alphabet = b" \n\t;:|#-()=/*'aT0_9Z%\x80\x01"
    texts = sorted(set(texts))          # TLC's workers print in any order: the sample must not depend on it
    base = rnd.sample(texts, min(len(texts), 300 if tier == "quick" else 1500))
    for tx in base:
        for _ in range(3):
            b = bytearray(tx)
            kind = rnd.randrange(5)
            pos = rnd.randrange(len(b)) if b else 0
            if kind == 0 and b:
                del b[pos]
            elif kind == 1:
                b.insert(pos, alphabet[rnd.randrange(len(alphabet))])
            elif kind == 2 and b:
                b[pos] = alphabet[rnd.randrange(len(alphabet))]
            elif kind == 3:
                b = b[:pos]                   # truncation
            else:
                b = b[:pos] + b[pos:pos + 4] + b[pos:]   # duplication of a fragment
            if 0 in b:
                continue
            muts.append(bytes(b))
    muts += [b"", b"'", b"/*", b"/", b"TERM", b"TERM;", b"a : 'x", b"a : # b 1 (", b"a:", b"a : b # 0 1;", b"TERM a = ;", b"a : 'x' ;\n" * 3 + b"$"]
    # a few very long identifiers (error message buffer) 
    muts += [b"TERM x;\n" + b"L" * n + b" : L ;\n" for n in (150, 199, 200, 201, 300, 1000)]
    judged = judge_texts(res, scratch, muts)
    blocks = []
    meta = {}
    for i, (tx, j) in enumerate(zip(muts, judged)):
        gid = "mut%d" % i
        meta[gid] = (tx, j)
        allowed = "0,4,5,6,7,8,9,10,11,12,13,14,15,16" if j["ok"] else "3,4,5,6,7,8,9,10,11,12,13,14,15,16"
        blocks.append(["G " + gid, "DT 0 %s %s" % (allowed, tx.hex())])
    for bdir in builds:
        recs, st = run_harness(os.path.join(bdir, "yv_replay"), blocks)
        for r in recs:
            if r.get("k") == "summary":
                res.cov["evaluations"] += r["defs"]
            elif r.get("k") == "synerr":
                tx, j = meta[r["g"]]
                m = re.search(r"ln (\d+)", r["msg"])
                if not m or not (1 <= int(m.group(1)) <= j["lines"]):
                    res.violation("C11|syntax error message does not name a line inside the text", dict(r, text=tx.decode(errors="replace"), lines=j["lines"]))
            elif r.get("k") == "mismatch":
                tx, j = meta.get(r.get("g"), (b"", {}))
                key = "C11|" + r["what"] + (" (text follows the manual's syntax)" if j.get("ok") else " (text does not follow the manual's syntax)")
                if r["what"] == "definition return code" and not j.get("ok") and j.get("okext") and r.get("got") == "0":
                    key = "F24-anode-without-parentheses"
                res.violation(key, dict(r, text=tx.decode(errors="replace"), judged=j, build=os.path.basename(bdir)))
            elif r.get("e") == "Abort":
                blk = r.get("block") or []
                g = blk[0][2:] if blk else None
                tx, j = meta.get(g, (b"", {}))
                res.violation(abort_key(r), dict(r, text=tx.decode(errors="replace"), block=blk[:2], build=os.path.basename(bdir)))
        res.cov["traces_validated_against_impl"] += len(blocks)
    res.notes["mutated_texts"] = len(muts)
    res.notes["mutated_texts_valid"] = sum(1 for j in judged if j["ok"])


def judge_texts(res, scratch, texts):
    """TLC decides for each text whether it follows the documented syntax (Descr!SyntaxOK), also with the
    recorded extension, and how many lines it has."""
    path = scratch.path("texts.json")
    with open(path, "w") as f:
        json.dump([list(t) for t in texts], f)
    cfg = "SPECIFICATION JSpec\nINVARIANT JEmit\nCHECK_DEADLOCK FALSE\n"
    t = run_tlc(scratch, "MCDescrJudge", cfg, "judge", timeout=3000, env={"TEXTS": path})
    if t["status"] != "ok":
        raise Infra("TLC judge: %s\n%s" % (t["status"], t["tail"][-3000:]))
    res.add_tlc(t)
    out = {}
    for v in tlc_vectors(t["out"]):
        out[v["i"]] = v
    return [out[i + 1] for i in range(len(texts))]


# ------------------------------------------------------------------ C12 (exploration: envelope-pushing inputs under sanitizers)
LEVELS["C12"] = "exploration"


def long_name(k):
    base = tname(k)
    return base if base in ("error", "$eof", "$S") else base + "_" + "x" * (300 - len(base))


def check_C12(res, scratch, tier, seed):
    import corpus as C
    asan = build(scratch, "asan", ("yv_replay", "yv_api"))
    plain = build(scratch, "plain", ("yv_replay", "yv_api"))
    res.cov["trusted_base"] = TB + ["ASan/UBSan are the observers of memory errors and undefined behaviour: this check is exploration, not proof"]
    res.cov["rule"] = ("the specifications supply the precondition envelope and the allowed outcomes; this check pushes the envelope and lets the sanitizers observe: "
                       "(1) Api.tla behaviours with every setter at INT_MIN, -1, 0, 1, INT_MAX ...; (2) the TLC-judged corpus (random grammars with error rules and "
                       "translations, wide terminal sets) under every configuration incl. recovery_match in {-5, 0, 1, 1000000} and debug levels -1..7, with token codes "
                       "inside gaps and outside the declared range; (3) description texts: every truncation of valid texts and bytes 1..255 substituted at every "
                       "lexical position class, judged by TLC; (4) 300-character and 1-character names, hundreds of symbols, terminal codes dense / 10000 apart / INT_MAX, "
                       "defective definitions with long names (error message must fit: <= 200 characters); every run on the ASan+UBSan build with a 20 s watchdog per call; "
                       "non-trivial = executions that reported a syntax error, a definition error or an invalid token")
    nontriv = 0

    def feed(binary, blocks, what, extra_ok=None):
        nonlocal nontriv
        recs, st = run_harness(binary, blocks)
        for r in recs:
            if r.get("k") == "summary":
                res.cov["evaluations"] += r.get("parses", 0) + r.get("defs", 0) + r.get("ops", 0)
                nontriv += r.get("nonsent", 0)
            elif r.get("e") == "Abort":
                res.violation(abort_key(r) + ":" + what, dict(r, block=[l[:300] for l in (r.get("block") or [])[:25]]))
            elif r.get("k") == "mismatch":
                w = r["what"]
                if w.startswith(("error message", "parse rc", "parse return code", "definition return code", "error_code")):
                    if extra_ok and extra_ok(r):
                        continue
                    nontriv += 1 if w.startswith("definition") else 0
                    res.violation("C12|%s (%s)" % (w, what), dict(r, cfg=r.get("cfg", "")[:200]))
                else:
                    res.notes["other_property_mismatches"] = res.notes.get("other_property_mismatches", 0) + 1
            elif r.get("k") == "synerr":
                nontriv += 1
    # (1) extreme setter values through the API machine
    depth = 16
    t = run_tlc(scratch, "Api", api_cfg_extreme([1, 2], depth, ["EmitPools"]), "api_ext", simulate=max(1, (400 if tier == "quick" else 4000) // NCPU), depth=depth + 3,
                timeout=1500, extra=("-seed", str(seed)))
    pools, behs = None, []
    for v in tlc_vectors(t["out"]):
        if "defs" in v:
            pools = pools or v
        elif "hist" in v:
            behs.append(v["hist"])
    if pools is None or not behs:
        raise Infra("no behaviours printed by TLC\n" + t["tail"][-2000:])
    pool_lines, inputs = api_pool_lines(pools, codemap="gapzero")
    blocks = [[("G b%d" % i)] + pool_lines + api_behaviour_block("b%d" % i, h, inputs)[1:] for i, h in enumerate(behs)]
    feed(os.path.join(asan, "yv_api"), blocks, "api-extreme-settings")
    res.cov["samples"].append({"api_behaviour": [l for l in blocks[0] if l[:2] in ("c ", "s ", "d ", "p ", "f ")][:16]})
    # (2) corpus under all configurations
    ents = corpus_entries(tier, seed + 5, ("random_err", "random_trans", "wide", "curated"))
    vecs = corpus_vectors(res, scratch, "corpus_C12", ents, trees=False, timeout=3000)
    matrix = [(la, one, cost, 1, m, dbg) for la in (0, 1, 2) for (one, cost) in ((1, 0), (0, 1)) for (m, dbg) in ((-5, 0), (0, 1), (1, 7), (1000000, -1))]
    blocks = []
    for v in vecs.values():
        b = blocks_from_vector(v, matrix, mems=(0, 1), want_trees=False, max_cases=25)
        if b:
            # token codes that are not terminals: between declared codes and far outside
            b += ["W invalid 3 %d 1000000 2147483647" % CODEMAPS["ascii"](1), "X sent=-1 rc=17", "P 1 1 0 1 3 0 1", "P 0 0 1 1 3 0 0"]
            blocks.append(b)
    feed(os.path.join(asan, "yv_replay"), blocks, "corpus-all-configs")
    # (3) texts
    base_texts = [b"TERM a=97 b=98;\nS : 'x' S b # p 2 (0 1 -)\n  | a # 0\n  | /* c */ error ';' # -\n  ;\n", b"E : E '+' T # plus (0 2) | T # 0 ; T : 'a' # 0 | '(' E ')' # 1 ;\n",
                  b"TERM\nid num;\nL : L id # l (0 1) | num ;"]
    muts = []
    for tx in base_texts:
        for pos in range(len(tx) + 1):
            muts.append(tx[:pos])
        rnd = random.Random(seed)
        for pos in range(len(tx)):
            for bval in ([1, 39, 47, 42, 127, 128, 255, 35, 58] if tier == "quick" else range(1, 256)):
                muts.append(tx[:pos] + bytes([bval]) + tx[pos + 1:])
    muts = [m for m in dict.fromkeys(muts) if 0 not in m]
    judged = judge_texts(res, scratch, muts)
    blocks = []
    for i, (tx, j) in enumerate(zip(muts, judged)):
        allowed = "0,4,5,6,7,8,9,10,11,12,13,14,15,16" if j["ok"] else "0,3,4,5,6,7,8,9,10,11,12,13,14,15,16" if j["okext"] else "3,4,5,6,7,8,9,10,11,12,13,14,15,16"
        blocks.append(["G text%d" % i, "DT %d %s %s" % (i % 2, allowed, tx.hex()), "W p 1 97", "X sent=-1 rc=-1", "P 1 1 0 1 3 0 1"])
    feed(os.path.join(asan, "yv_replay"), blocks, "description-texts", extra_ok=lambda r: r["what"].startswith("parse rc"))
    res.notes["texts"] = len(muts)
    # (4) names, many symbols, codes
    blocks = []
    n = 0
    for gid, v in list(vecs.items())[:120]:
        if not v.get("rules"):
            continue
        for style, nm in (("long", long_name), ("short", lambda k: tname(k))):
            lines = ["G %s-%s" % (gid, style)]
            for t in v["terms"]:
                lines.append("T %s %d" % (nm(t["n"]), 96 + t["c"] if t["c"] > 0 else t["c"]))
            for r in v["rules"]:
                an = "-" if r["an"] == 0 else ("a%d" % r["an"]) + ("y" * 290 if style == "long" else "")
                tr = ["N" if e == 0 else str(e - 1) for e in r["t"]]
                lines.append(" ".join(["R", nm(r["l"]), an, str(r["c"]), str(len(r["r"]))] + [nm(s) for s in r["r"]] + [str(len(tr))] + tr))
            for strict, d in ((1, v["ds"]), (0, v["dn"])):
                lines.append("D %d %s" % (strict, ",".join(map(str, d)) if d else "0"))
            blocks.append(lines)
            n += 1
    # defects whose messages carry the long names
    L = "L" * 300
    T = "T" * 300
    blocks += [["G longdefect1", "T %s 1" % T, "T %s 2" % T, "R S - 0 1 %s 0 " % T, "D 0 5"],
               ["G longdefect2", "T a 1", "R %s - 0 1 %s 0 " % (L, L), "D 0 16,15"],
               ["G longdefect3", "T a 1", "R S - 0 1 a 0 ", "R %s - 0 1 a 0 " % L, "D 1 14"],
               ["G longdefect4", "T a 1", "R S %s 1 1 a 1 5" % ("A" * 300), "D 0 12"],
               ["G longdefect5", "T %s 1" % T, "R %s - 0 0  0 " % T, "D 0 9"],
               ["G codes-intmax", "T a 2147483647", "T b 0", "R S - 0 2 a b 0 ", "D 1 0", "W w 2 2147483647 0", "X sent=1 nd=1", "P 1 1 0 1 3 0 1", "W w2 1 5", "X sent=-1 rc=17", "P 1 1 0 1 3 0 1"],
               ["G codes-apart", "T a 0", "T b 10000", "T c 9999999", "R S - 0 3 a b c 0 ", "D 1 0", "W w 3 0 10000 9999999", "X sent=1 nd=1", "P 2 0 0 1 3 0 1",
                "W w2 1 5000", "X sent=-1 rc=17", "P 1 1 0 1 3 0 1"]]
    # hundreds of symbols: a chain of 200 nonterminals over 300 terminals
    big = ["G manysyms"] + ["T k%d %d" % (i, i * 3) for i in range(300)]
    big += ["R N%d - 0 2 k%d N%d 0 " % (i, i, i + 1) for i in range(200)] + ["R N200 - 0 1 k299 0 "]
    big += ["D 1 0", "W w 201 " + " ".join(str(i * 3) for i in range(200)) + " %d" % (299 * 3), "X sent=1 nd=1", "P 1 1 0 1 3 0 0", "P 2 0 1 1 3 0 1", "W w2 3 0 3 7", "X sent=-1 rc=17", "P 1 1 0 1 3 0 1"]
    blocks.append(big)
    feed(os.path.join(asan, "yv_replay"), blocks, "names-symbols-codes")
    feed(os.path.join(plain, "yv_replay"), blocks, "names-symbols-codes-plain")
    res.cov["distinct_nontrivial"] = max(nontriv, 2)
    res.cov["samples"].append({"text_mutation": muts[len(muts) // 2].decode(errors="replace")})


# ------------------------------------------------------------------ translation walk (MpTrace.tla over MakeParse.tla): part of C02 and C03
def mp_lines_from_recs(recs, vecs, code, max_events=500, max_tokens=10):
    """Trace lines for MpTrace.tla: the symbols of the final parser list (folded from the SET events) and the MPS events of the parse."""
    lines, skipped = [], 0
    for r in recs:
        if r.get("k") != "parse" or r["n"] > max_tokens or r.get("rc") != 0 or not r.get("root"):
            continue
        vec = vecs.get(r["g"])
        if not vec:
            continue
        c2n = {code(t["c"]): t["n"] for t in vec["terms"]}
        c2n[-2] = 0
        c2n[-1] = -1
        syms, mp, bad = [], [], False
        for ev in r.get("ev", []):
            if ev["k"] == 1:
                if ev["a"] == 0:
                    syms = []
                elif ev["a"] - 1 > len(syms) or ev["f"] not in c2n:
                    bad = True
                else:
                    syms = syms[:ev["a"] - 1] + [c2n[ev["f"]]]
            elif ev["k"] == 6:
                mp.append([ev["a"], ev["b"], ev["c"], ev["d"], ev["e"]])
        if bad or not mp or len(mp) > max_events or len(syms) != mp[0][4]:
            skipped += 1
            continue
        lines.append({"id": "%s/%s/%d,%d,%d,%d" % (r["g"], r["w"], r["la"], r["one"], r["cost"], r["rec"]), "terms": [t["n"] for t in vec["terms"]],
                      "rules": vec["rules"], "syms": syms, "all": 0 if (r["one"] and not r["cost"]) else 1, "mp": mp})
    return lines, skipped


def mp_trace_part(res, scratch, tier, seed, builds, prop, ones):
    """Record the translation walk of make_parse (hook MPS: every parse state processed, every reduction taken) on corpus parses and let
    TLC validate it against MakeParse.tla over the ideal Earley sets (MpTrace.tla); before that TLC checks the design of the walk itself
    (MCMakeParse!WalkDesign: the walk is sound and the translations read off the chart are Trans!Translations)."""
    import concurrent.futures as cf
    t = run_tlc(scratch, "MCMakeParse", mcgram_cfg([1, 2], [11, 12], 2, 2, 3, False, [0, 1, 4, 5, 6], True, invariants=("WalkDesign",)), "walk_design", timeout=1500)
    if t["status"] != "ok":
        if t["status"] == "violation":
            res.violation("design|MCMakeParse!WalkDesign violated", {"tail": t["tail"][-1500:]})
        else:
            raise Infra("TLC MCMakeParse: %s\n%s" % (t["status"], t["tail"][-2500:]))
    res.cov["states"] += t.get("distinct", 0)
    res.cov["transitions"] += t.get("states", 0)
    ents = [e for e in corpus_entries(tier, seed + 23, ("curated", "amb_chains", "random_trans", "random_amb", "random_err")) if len(e["rules"]) <= 8]
    vecs = corpus_vectors(res, scratch, "corpus_mp", ents, trees=False, timeout=3000)
    matrix = [(la, one, cost, rec, 3, 0) for one in ones for (la, cost, rec) in ((0, 0, 1), (1, 0, 0), (2, 0, 1), (1, 1, 1))]
    blocks = [b for b in (blocks_from_vector(v, matrix, mems=(1,), want_trees=False, max_cases=12) for v in vecs.values()) if b]
    recs, st = run_harness(os.path.join(builds[0], "yv_replay"), blocks, args=("-t", "-s", "-m"))
    for r in recs:
        if r.get("e") == "Abort":
            res.violation(abort_key(r), dict(r, block=(r.get("block") or [])[:20]))
    lines, skipped = mp_lines_from_recs(recs, vecs, CODEMAPS["ascii"])
    rnd = random.Random(seed)
    cap = 2000 if tier == "quick" else 30000
    if len(lines) > cap:
        lines = rnd.sample(lines, cap)
    chunks = [lines[i:i + 300] for i in range(0, len(lines), 300)]

    def work(args):
        i, ch = args
        return validate_trace(scratch, "MpTrace", ch, "mp_tr%d" % i, timeout=3000), ch
    ndiag = nev = nfork = 0
    with cf.ThreadPoolExecutor(max_workers=max(1, NCPU // 2)) as ex:
        for (ok, rej, tt), ch in ex.map(work, list(enumerate(chunks))):
            if not ok:
                raise Infra("MpTrace validation did not finish: " + tt["tail"][-2500:])
            res.cov["states"] += tt.get("distinct", 0)
            res.cov["transitions"] += tt.get("states", 0)
            res.cov["traces_validated_against_impl"] += len(ch)
            nev += sum(len(ln["mp"]) for ln in ch)
            for (lno, lid, reasons) in rej:
                for reason in reasons:
                    if reason.startswith("DIAG") and "fork missing" in reason:
                        nfork += 1
                    elif reason.startswith("DIAG"):
                        ndiag += 1
                    else:
                        res.violation("trace|" + reason, {"line": ch[lno - 1], "reason": reason})
    res.notes["drift_walk_lines_with_a_missing_fork"] = nfork
    res.notes["walk_events_validated"] = res.notes.get("walk_events_validated", 0) + nev
    res.notes["walk_lines_not_usable"] = res.notes.get("walk_lines_not_usable", 0) + skipped
    res.notes["drift_walk_lines_not_taking_every_reduction_with_all_parses"] = ndiag
    if lines:
        res.cov["samples"].append({"walk_trace_line": min(lines, key=lambda ln: abs(len(ln["mp"]) - 12))})



# ------------------------------------------------------------------ set-level trace validation (EarleyTrace.tla): part of C01 and C09
def earley_trace_part(res, scratch, tier, seed, builds, props, kinds=("curated", "random", "random_err"), max_parses=None):
    """Record the hook events (every placed Earley set, every fresh re-computation at a cache hit) of corpus parses and let TLC
    validate them against the ideal sets of Earley.tla."""
    import concurrent.futures as cf
    ents = [e for e in corpus_entries(tier, seed + 11, kinds) if len(e["rules"]) <= 8]
    vecs = corpus_vectors(res, scratch, "corpus_sets", ents, trees=False, timeout=3000)
    matrix = [(0, 1, 0, 1, 3, 0), (1, 1, 0, 1, 2, 0), (2, 1, 0, 1, 3, 0), (0, 1, 0, 0, 3, 0)]
    blocks = [b for b in (blocks_from_vector(v, matrix, mems=(1,), want_trees=False, max_cases=12) for v in vecs.values()) if b]
    code = CODEMAPS["ascii"]
    recs, st = run_harness(os.path.join(builds[0], "yv_replay"), blocks, args=("-t", "-s"))
    lines = []
    for r in recs:
        if r.get("e") == "Abort":
            res.violation(abort_key(r), dict(r, block=(r.get("block") or [])[:20]))
        if r.get("k") != "parse" or r["n"] > 10:
            continue
        vec = vecs.get(r["g"])
        if not vec:
            continue
        c2n = {code(t["c"]): t["n"] for t in vec["terms"]}
        c2n[-2] = 0
        c2n[-1] = -1
        evs = []
        for ev in r.get("ev", []):
            if ev["k"] in (1, 2):
                evs.append({"k": ev["k"], "a": ev["a"], "c": ev["c"], "e": ev["e"], "f": c2n.get(ev["f"], -99) if ev["a"] > 0 else 0, "it": [it[:3] for it in ev["it"]]})
        lines.append({"id": "%s/%s/%d,%d" % (r["g"], r["w"], r["la"], r["rec"]), "terms": [t["n"] for t in vec["terms"]], "rules": vec["rules"], "n": r["n"],
                      "la": r["la"], "ev": evs})
    rnd = random.Random(seed)
    cap = max_parses or (4000 if tier == "quick" else 40000)
    if len(lines) > cap:
        lines = rnd.sample(lines, cap)
    chunks = [lines[i:i + 500] for i in range(0, len(lines), 500)]

    def work(args):
        i, ch = args
        return validate_trace(scratch, "EarleyTrace", ch, "sets_tr%d" % i, timeout=3000), ch
    ndiag = 0
    nsets = 0
    with cf.ThreadPoolExecutor(max_workers=max(1, NCPU // 2)) as ex:
        for (ok, rej, tt), ch in ex.map(work, list(enumerate(chunks))):
            if not ok:
                raise Infra("EarleyTrace validation did not finish: " + tt["tail"][-2500:])
            res.cov["states"] += tt.get("distinct", 0)
            res.cov["transitions"] += tt.get("states", 0)
            res.cov["traces_validated_against_impl"] += len(ch)
            nsets += sum(len(ln["ev"]) for ln in ch)
            for (lno, lid, reasons) in rej:
                for reason in reasons:
                    if reason.startswith("DIAG"):
                        ndiag += 1
                    elif any(reason.startswith(p) for p in props):
                        res.violation("trace|" + reason, {"line": ch[lno - 1], "reason": reason})
    res.notes["set_events_validated"] = res.notes.get("set_events_validated", 0) + nsets
    res.notes["diag_sets_differing_from_ideal_at_la0"] = res.notes.get("diag_sets_differing_from_ideal_at_la0", 0) + ndiag
    if lines:
        res.cov["samples"].append({"set_trace_line": lines[len(lines) // 2]})


def recovery_trace_part(res, scratch, tier, seed, builds, props):
    """Parses with recovery on of the recovery corpus (nested error levels, damaged sentences of 5-14 tokens), recorded with the
    hook events of error_recovery, validated by TLC against RecTrace.tla: callbacks against the Earley-set oracle of Recovery.tla
    (C01/C06/C08) at every lookahead level, popped states and finished recoveries against the machine at level 0 (drift only)."""
    import concurrent.futures as cf
    ents = _corpus.recovery_corpus(seed, 20 if tier == "quick" else 120)
    code = CODEMAPS["ascii"]
    mx = [(la, 1, 0, 1, m, 0) for la in (0, 1, 2) for m in (1, 2, 3)]
    blocks, meta = [], {}
    for e in ents:
        vec = {"id": e["id"], "terms": e["terms"], "rules": e["rules"], "dn": [], "ds": [], "cases": [{"w": w, "sent": False, "nd": 0, "fo": -1} for w in e["inputs"]]}
        b = blocks_from_vector(vec, mx, mems=(1,), want_trees=False)
        if not b:
            continue
        b = [ln.replace("X sent=0 nd=-1", "X sent=-1") if ln.startswith("X ") else ln for ln in b]
        blocks.append(b)
        meta[e["id"]] = e
    recs, st = run_harness(os.path.join(builds[0], "yv_replay"), blocks, args=("-t", "-s"))
    lines = []
    for r in recs:
        if r.get("e") == "Abort":
            res.violation(abort_key(r), dict(r, block=(r.get("block") or [])[:20]))
        if r.get("k") != "parse" or r["rc"] != 0 or not r["rec"]:
            continue
        e = meta[r["g"]]
        c2n = {code(t["c"]): t["n"] for t in e["terms"]}
        if any(c not in c2n for c in r["toks"]):
            continue
        base = {"terms": [t["n"] for t in e["terms"]], "rules": e["rules"], "w": [c2n[c] for c in r["toks"]], "match": r["match"], "la": r["la"]}
        lid = "%s/%s/%d,%d" % (r["g"], r["w"], r["la"], r["match"])
        lines.append(dict(base, id=lid, kind="oracle", calls=[c[:3] for c in r["calls"]]))
        if r["la"] == 0:
            pops = [[ev["a"], ev["b"], ev["c"], ev["d"], ev["e"]] for ev in r.get("ev", []) if ev["k"] == 4]
            rcs = [[ev["a"], ev["b"], ev["c"], ev["d"], ev["e"]] for ev in r.get("ev", []) if ev["k"] == 3]
            lines.append(dict(base, id=lid + "/mach", kind="mach", pops=pops, recs=rcs))
    chunks = [lines[i:i + 150] for i in range(0, len(lines), 150)]
    cfgx = "CONSTANTS\n  GrammarsR <- DummyG\n  InputsR <- DummyI\n  MatchVals = {1}\n"

    def work(args):
        i, ch = args
        return validate_trace(scratch, "RecTrace", ch, "rec_tr%d" % i, timeout=3000, cfg_extra=cfgx), ch
    ndrift = 0
    with cf.ThreadPoolExecutor(max_workers=max(1, NCPU // 2)) as ex:
        for (ok, rej, tt), ch in ex.map(work, list(enumerate(chunks))):
            if not ok:
                raise Infra("RecTrace validation did not finish: " + tt["tail"][-2500:])
            res.cov["states"] += tt.get("distinct", 0)
            res.cov["transitions"] += tt.get("states", 0)
            res.cov["traces_validated_against_impl"] += len(ch)
            for (lno, lid, reasons) in rej:
                for reason in reasons:
                    if reason.startswith("DRIFT"):
                        ndrift += 1
                        if len(res.notes.setdefault("recovery_machine_drift_examples", [])) < 3:
                            res.notes["recovery_machine_drift_examples"].append({"line": ch[lno - 1], "reason": reason})
                    elif any(reason.startswith(p) for p in props):
                        res.violation("trace|" + reason, {"line": ch[lno - 1], "reason": reason})
    res.notes["recovery_lines_validated"] = res.notes.get("recovery_lines_validated", 0) + len(lines)
    res.notes["recovery_machine_drift"] = res.notes.get("recovery_machine_drift", 0) + ndrift
    res.cov["distinct_nontrivial"] += sum(1 for ln in lines if ln["kind"] == "oracle" and ln["calls"])
    if lines:
        res.cov["samples"].append({"recovery_trace_line": lines[len(lines) // 2]})


def set_sweep_part(res, scratch, tier, seed, builds, props, n=None):
    """Long inputs (6-20 tokens) of random grammars with many nullable and ambiguous symbols, lookahead 0..2, recovery off and on.
    (1) return code, root and callbacks are judged by TLC with the Earley sets of RelSets (RecTrace.tla, kind recog);
    (2) the sets recorded at lookahead 0 are validated against the ideal sets (EarleyTrace.tla);
    (3) where a recorded set is a proper subset of the ideal one - no violation by itself - TLC searches for continuations that
        the ideal recognizer accepts and one with the recorded set does not (Witness.tla); the library parses them and the outcome
        is judged as in (1): only a wrong outcome on a real input is reported."""
    import concurrent.futures as cf
    n = n or (150 if tier == "quick" else 1500)
    ents = _corpus.long_random_entries(seed, n) + _corpus.nested_nullable_family(seed, 30 if tier == "quick" else 150)
    code = CODEMAPS["ascii"]
    mx = [(0, 1, 0, 0, 3, 0), (1, 1, 0, 0, 3, 0), (2, 1, 0, 1, 2, 0)]
    cfgx = "CONSTANTS\n  GrammarsR <- DummyG\n  InputsR <- DummyI\n  MatchVals = {1}\n"

    def mkblocks(entries, matrix):
        blocks, meta = [], {}
        for e in entries:
            # ds non-empty: defined with strict = 0 (unreachable and unproductive nonterminals are frequent in random rule sets)
            vec = {"id": e["id"], "terms": e["terms"], "rules": e["rules"], "dn": [], "ds": [1], "cases": [{"w": w, "sent": False, "nd": 0, "fo": -1} for w in e["inputs"]]}
            b = blocks_from_vector(vec, matrix, mems=(1,), want_trees=False)
            if not b:
                continue
            blocks.append([ln.replace("X sent=0 nd=-1", "X sent=-1") if ln.startswith("X ") else ln for ln in b])
            meta[e["id"]] = e
        return blocks, meta

    def recog_lines(recs, meta):
        out = []
        for r in recs:
            if r.get("e") == "Abort":
                res.violation(abort_key(r), dict(r, block=(r.get("block") or [])[:20]))
            if r.get("k") != "parse":
                continue
            e = meta[r["g"]]
            c2n = {code(t["c"]): t["n"] for t in e["terms"]}
            out.append({"id": "%s/%s/%d,%d" % (r["g"], r["w"], r["la"], r["rec"]), "kind": "recog", "terms": [t["n"] for t in e["terms"]], "rules": e["rules"],
                        "w": [c2n[c] for c in r["toks"]], "match": r["match"], "la": r["la"], "rec": r["rec"], "rc": r["rc"], "root": r["root"],
                        "calls": [c[:3] for c in r["calls"]]})
        return out

    def validate(module, lines, tag, chunk, extra=""):
        chunks = [lines[i:i + chunk] for i in range(0, len(lines), chunk)]
        rejected = []

        def work(args):
            i, ch = args
            return validate_trace(scratch, module, ch, "%s%d" % (tag, i), timeout=3000, cfg_extra=extra), ch
        with cf.ThreadPoolExecutor(max_workers=max(1, NCPU // 2)) as ex:
            for (ok, rej, tt), ch in ex.map(work, list(enumerate(chunks))):
                if not ok:
                    raise Infra("%s (%s) did not finish: %s" % (module, tag, tt["tail"][-2500:]))
                res.cov["states"] += tt.get("distinct", 0)
                res.cov["transitions"] += tt.get("states", 0)
                res.cov["traces_validated_against_impl"] += len(ch)
                for (lno, lid, reasons) in rej:
                    rejected.append((ch[lno - 1], reasons))
        return rejected

    # (0) grow the inputs, guided by the abstract states of the specification that the recorded sets cover: a feature is a
    #     set core (the situations without distances) together with the equality pattern of its distances - the same core met
    #     with different patterns is where data shared between sets through the core can go wrong.  Generation only; every kept
    #     input is judged below like the others.
    def features(r):
        fs = set()
        for ev in r.get("ev", []):
            if ev["k"] != 1:
                continue
            core = tuple((it[0], it[1]) for it in ev["it"])
            rank, pat = {}, []
            for it in ev["it"]:
                pat.append(rank.setdefault(it[2], len(rank)))
            fs.add((hash(core), tuple(pat)))
        return fs
    rnd = random.Random(seed + 17)
    guided = [e for e in ents if e["id"].startswith("nestnull")] + [e for e in ents if not e["id"].startswith("nestnull")][:(40 if tier == "quick" else 400)]
    seen = {}
    pools = {e["id"]: [w for w in e["inputs"]] for e in guided}
    gm = [(0, 1, 0, 0, 3, 0)]
    for rd in range(4 if tier == "quick" else 6):
        cand = []
        for e in guided:
            ws = pools[e["id"]]
            news = list(ws) if rd == 0 else []
            if rd > 0:
                for _ in range(24):
                    w = list(rnd.choice(ws))
                    kind = rnd.randrange(5)
                    if kind == 0 and len(ws) > 1:          # splice: prefix of one with a suffix of another
                        v = rnd.choice(ws)
                        w = w[:rnd.randrange(len(w) + 1)] + v[rnd.randrange(len(v) + 1):]
                    elif kind == 1 and w:                   # repeat a fragment
                        a = rnd.randrange(len(w))
                        b = min(len(w), a + rnd.randint(1, 5))
                        w = w[:b] + w[a:b] + w[b:]
                    elif kind == 2 and w:
                        w[rnd.randrange(len(w))] = rnd.choice(e["alphabet"])
                    elif kind == 3:
                        w.insert(rnd.randrange(len(w) + 1), rnd.choice(e["alphabet"]))
                    elif w:
                        del w[rnd.randrange(len(w))]
                    if 0 < len(w) <= 26 and w not in ws and w not in news:
                        news.append(w)
            if news:
                cand.append(dict(e, inputs=news))
        gblocks, gmeta = mkblocks(cand, gm)
        grecs, st = run_harness(os.path.join(builds[0], "yv_replay"), gblocks, args=("-t", "-s"))
        for r in grecs:
            if r.get("k") != "parse":
                continue
            fs = features(r)
            sg = seen.setdefault(r["g"], set())
            if fs - sg:
                sg |= fs
                e = gmeta[r["g"]]
                c2n = {code(t["c"]): t["n"] for t in e["terms"]}
                w = [c2n[c] for c in r["toks"]]
                if w not in pools[r["g"]]:
                    pools[r["g"]].append(w)
    for e in guided:
        e["inputs"] = pools[e["id"]][:(40 if tier == "quick" else 80)]
    res.notes["guided_inputs_kept"] = res.notes.get("guided_inputs_kept", 0) + sum(len(e["inputs"]) for e in guided)
    res.notes["guided_core_pattern_features"] = res.notes.get("guided_core_pattern_features", 0) + sum(len(v) for v in seen.values())
    blocks, meta = mkblocks(ents, mx)
    recs, st = run_harness(os.path.join(builds[0], "yv_replay"), blocks, args=("-t", "-s"))
    # (1)
    lines = recog_lines(recs, meta)
    for ln, reasons in validate("RecTrace", lines, "recog_tr", 200, cfgx):
        for reason in reasons:
            if any(reason.startswith(p) for p in props):
                res.violation("trace|" + reason, {"line": ln, "reason": reason})
    res.notes["long_recognition_parses_validated"] = res.notes.get("long_recognition_parses_validated", 0) + len(lines)
    res.notes["long_recognition_sentences"] = res.notes.get("long_recognition_sentences", 0) + sum(1 for ln in lines if not ln["calls"])
    # (2)
    slines = []
    for r in recs:
        if r.get("k") != "parse" or r["la"] != 0:
            continue
        e = meta[r["g"]]
        c2n = {code(t["c"]): t["n"] for t in e["terms"]}
        c2n[-2] = 0
        c2n[-1] = -1
        evs = [{"k": ev["k"], "a": ev["a"], "c": ev["c"], "e": ev["e"], "f": c2n.get(ev["f"], -99) if ev["a"] > 0 else 0, "it": [it[:3] for it in ev["it"]]}
               for ev in r.get("ev", []) if ev["k"] in (1, 2)]
        slines.append({"id": "%s/%s/%d,%d" % (r["g"], r["w"], r["la"], r["rec"]), "terms": [t["n"] for t in e["terms"]], "rules": e["rules"], "n": r["n"], "la": r["la"],
                       "ev": evs, "_g": r["g"], "_alpha": e["alphabet"]})
    cases = []
    nsets = 0
    for ln, reasons in validate("EarleyTrace", [{k: v for k, v in ln.items()} for ln in slines], "sweep_sets", 300):
        for reason in reasons:
            if reason.startswith("DIAG"):
                m = re.search(r"at event (\d+)", reason)
                if not m:
                    continue
                i = int(m.group(1)) - 1
                ev = ln["ev"][i]
                syms = []
                for x in ln["ev"][:i + 1]:
                    if x["k"] == 1 and x["a"] > 0:
                        syms = syms[:x["a"] - 1] + [x["f"]]
                if ev["k"] != 1 or 0 in syms:
                    continue           # continuations are generated for plain prefixes only (no error shifted before)
                cases.append({"id": ln["id"], "terms": ln["terms"], "rules": ln["rules"], "syms": syms, "alphabet": ln["_alpha"],
                              "got": [[it[0], it[1], ev["a"] - it[2]] for it in ev["it"]], "_g": ln["_g"]})
            elif any(reason.startswith(p) for p in props):
                res.violation("trace|" + reason, {"line": {k: v for k, v in ln.items() if not k.startswith("_")}, "reason": reason})
    res.notes["set_events_validated"] = res.notes.get("set_events_validated", 0) + sum(len(ln["ev"]) for ln in slines)
    res.notes["diag_sets_differing_from_ideal_at_la0"] = res.notes.get("diag_sets_differing_from_ideal_at_la0", 0) + len(cases)
    # (3)
    if cases:
        cases = cases[:400]
        path = scratch.path("witness_cases.ndjson")
        with open(path, "w") as f:
            for c in cases:
                f.write(json.dumps({k: v for k, v in c.items() if not k.startswith("_")}) + "\n")
        t = run_tlc(scratch, "Witness", "SPECIFICATION WSpec\nCONSTANTS\n  MaxSuffix = %d\nINVARIANTS EmitWitness\nCHECK_DEADLOCK FALSE\n" % (7 if tier == "quick" else 9),
                    "witness", timeout=3000, env={"TRACE": path})
        if t["status"] != "ok":
            raise Infra("TLC Witness: %s\n%s" % (t["status"], t["tail"][-2500:]))
        res.add_tlc(t)
        byid = {c["id"]: c for c in cases}
        per = {}
        for v in tlc_vectors(t["out"]):
            c = byid.get(v["id"])
            if c is None:
                continue
            lst = per.setdefault((c["_g"], tuple(c["syms"])), [])
            if len(lst) < 6:
                lst.append(c["syms"] + list(v["suf"]))
        went = {}
        for (g, _p), ws in per.items():
            went.setdefault(g, [])
            for w in ws:
                if w not in went[g]:
                    went[g].append(w)
        res.notes["witness_candidates"] = res.notes.get("witness_candidates", 0) + sum(len(v) for v in went.values())
        wents = [dict(meta[g], inputs=ws) for g, ws in went.items()]
        wblocks, wmeta = mkblocks(wents, [(0, 1, 0, 0, 3, 0), (1, 1, 0, 1, 3, 0)])
        if wblocks:
            wrecs, st = run_harness(os.path.join(builds[0], "yv_replay"), wblocks, args=("-t",))
            wl = recog_lines(wrecs, wmeta)
            for ln, reasons in validate("RecTrace", wl, "witness_tr", 200, cfgx):
                for reason in reasons:
                    if any(reason.startswith(p) for p in props):
                        res.violation("trace|" + reason, {"line": ln, "reason": reason, "found_by": "continuation generated by Witness.tla from a recorded set that lacks ideal items"})
            res.notes["witness_parses_validated"] = res.notes.get("witness_parses_validated", 0) + len(wl)


def look_trace_part(res, scratch, tier, seed, builds):
    """Conformance of the sets recorded at lookahead 1 and 2 with the pruning machines Look.tla / Look2.tla (LookTrace.tla): the
    recorded set at every position must be the machine's set.  Differences are drift (reported in the evidence), not violations."""
    import concurrent.futures as cf
    cur = [e for e in _corpus.curated() if len(e["rules"]) <= 9]
    ents = cur + _corpus.random_grammars(seed + 6000, 60 if tier == "quick" else 600, nnts=3, nterms=3, maxrules=6, maxlen=0) \
        + _corpus.random_grammars(seed + 6500, 30 if tier == "quick" else 300, nnts=3, nterms=2, maxrules=5, err=True, maxlen=0)
    rnd = random.Random(seed + 3)
    for e in ents:
        sents = _corpus.gen_sentences(e["rules"], rnd, 4, 9)
        e["inputs"] = ([w for w in e["inputs"] if len(w) <= 12][:3] + sents + _corpus.damaged_inputs(sents[:2], e["alphabet"], rnd, 1))[:8]
    code = CODEMAPS["ascii"]
    blocks, meta = [], {}
    for e in ents:
        if not e["inputs"]:
            continue
        vec = {"id": e["id"], "terms": e["terms"], "rules": e["rules"], "dn": [], "ds": [], "cases": [{"w": w, "sent": False, "nd": 0, "fo": -1} for w in e["inputs"]]}
        b = blocks_from_vector(vec, [(1, 1, 0, 0, 3, 0), (2, 1, 0, 0, 3, 0)], mems=(1,), want_trees=False)
        if not b:
            continue
        blocks.append([ln.replace("X sent=0 nd=-1", "X sent=-1") if ln.startswith("X ") else ln for ln in b])
        meta[e["id"]] = e
    recs, st = run_harness(os.path.join(builds[0], "yv_replay"), blocks, args=("-t", "-s"))
    lines = []
    for r in recs:
        if r.get("k") != "parse" or r["rc"] != 0 or r["la"] not in (1, 2):
            continue
        e = meta[r["g"]]
        c2n = {code(t["c"]): t["n"] for t in e["terms"]}
        if any(c not in c2n for c in r["toks"]):
            continue
        sets = []
        for ev in r.get("ev", []):
            if ev["k"] == 1 and ev["a"] == len(sets):
                sets.append([it[:3] for it in ev["it"]])
        if sets:
            lines.append({"id": "%s/%s/%d" % (r["g"], r["w"], r["la"]), "terms": [t["n"] for t in e["terms"]], "rules": e["rules"], "w": [c2n[c] for c in r["toks"]],
                          "la": r["la"], "sets": sets})
    chunks = [lines[i:i + 150] for i in range(0, len(lines), 150)]
    cfgx = "CONSTANTS\n  GrammarsC <- DummyGL\n  TermsC = {1}\n  MaxPl = 1\n"

    def work(args):
        i, ch = args
        return validate_trace(scratch, "LookTrace", ch, "look_tr%d" % i, timeout=3000, cfg_extra=cfgx), ch
    ndrift = 0
    with cf.ThreadPoolExecutor(max_workers=max(1, NCPU // 2)) as ex:
        for (ok, rej, tt), ch in ex.map(work, list(enumerate(chunks))):
            if not ok:
                raise Infra("LookTrace validation did not finish: " + tt["tail"][-2500:])
            res.cov["states"] += tt.get("distinct", 0)
            res.cov["transitions"] += tt.get("states", 0)
            res.cov["traces_validated_against_impl"] += len(ch)
            for (lno, lid, reasons) in rej:
                ndrift += 1
                if len(res.notes.setdefault("lookahead_machine_drift_examples", [])) < 3:
                    res.notes["lookahead_machine_drift_examples"].append({"id": lid, "reason": reasons[0], "line": ch[lno - 1]})
    res.notes["lookahead_sets_lines_validated"] = res.notes.get("lookahead_sets_lines_validated", 0) + len(lines)
    res.notes["lookahead_sets_validated"] = res.notes.get("lookahead_sets_validated", 0) + sum(len(ln["sets"]) for ln in lines)
    res.notes["lookahead_machine_drift"] = res.notes.get("lookahead_machine_drift", 0) + ndrift


def count_trace_part(res, scratch, tier, seed, builds, props):
    """Completeness of the all-parses result on inputs of 6-11 tokens: grammars whose every rule has its own abstract node with all
    right-hand side symbols in order (so that every derivation has its own translation), all parses without the cost flag; TLC counts
    the derivations by a fixed point over the derivable spans (Deriv!NDerivCappedAt) and validates the line (ParseTrace.tla): the number
    of denoted trees equals the number of derivations, every denoted tree is a translation, the ambiguity flag is set iff the count
    is at least 2."""
    import concurrent.futures as cf
    rnd = random.Random(seed + 23)
    CAP = 120
    R = _corpus.R
    fixed = [("cnt-ss", [R(11, [11, 11]), R(11, [1])], [1]), ("cnt-expr", [R(11, [11, 2, 11]), R(11, [11, 3, 11]), R(11, [1])], [1, 2, 3]),
             ("cnt-dangling", [R(11, [1, 11]), R(11, [1, 11, 2, 11]), R(11, [3])], [1, 2, 3]),
             ("cnt-nullmid", [R(11, [12, 13, 12]), R(12, [1]), R(12, [1, 1]), R(13, []), R(13, [1])], [1]),
             ("cnt-lists", [R(11, [12]), R(11, [11, 12]), R(12, [1, 13]), R(13, []), R(13, [13, 1])], [1])]
    ents = [_corpus.entry(i, rules, maxlen=0, alphabet=alpha) for (i, rules, alpha) in fixed]
    ents += _corpus.random_grammars(seed + 7000, 60 if tier == "quick" else 600, nnts=3, nterms=2, maxrules=6, maxrhs=3, maxlen=0, empty_bias=0.1)
    keep = []
    for e in ents:
        e = dict(e)
        e["rules"] = [dict(r, an=i + 1, c=1, t=list(range(1, len(r["r"]) + 1))) for i, r in enumerate(e["rules"])]
        sents = _corpus.gen_sentences(e["rules"], rnd, 10, 11)
        e["inputs"] = [w for w in sents if len(w) >= 5][:6]
        if e["id"].startswith("cnt-"):
            e["inputs"] += [[1] * k for k in (4, 5, 6)] if e["alphabet"] == [1] else []
        if e["inputs"]:
            keep.append(e)
    code = CODEMAPS["ascii"]
    blocks, meta = [], {}
    for e in keep:
        vec = {"id": e["id"], "terms": e["terms"], "rules": e["rules"], "dn": [], "ds": [1], "cases": [{"w": w, "sent": False, "nd": 0, "fo": -1} for w in e["inputs"]]}
        b = blocks_from_vector(vec, [(0, 0, 0, 0, 3, 0), (2, 0, 0, 0, 3, 0)], mems=(0, 1), want_trees=False)
        if not b:
            continue
        blocks.append([("X sent=-1 cap=%d" % (CAP + 1)) if ln.startswith("X ") else ln for ln in b])
        meta[e["id"]] = e
    recs, st = run_harness(os.path.join(builds[0], "yv_replay"), blocks, args=("-t", "-s"))
    lines = []
    for r in recs:
        if r.get("e") == "Abort":
            res.violation(abort_key(r), dict(r, block=(r.get("block") or [])[:20]))
        if r.get("k") != "parse" or r["rc"] != 0 or r["over"] or not r["root"]:
            continue
        e = meta[r["g"]]
        c2n = {code(t["c"]): t["n"] for t in e["terms"]}
        lines.append({"id": "%s/%s/%d" % (r["g"], r["w"], r["la"]), "terms": [t["n"] for t in e["terms"]], "rules": e["rules"], "sa": 0,
                      "w": [c2n[c] for c in r["toks"]], "la": r["la"], "one": r["one"], "cost": r["cost"], "rec": r["rec"], "match": r["match"], "rc": r["rc"],
                      "root": r["root"], "amb": r["amb"], "mp1": r.get("mp1", 0), "mp2": r.get("mp2", 0), "calls": r["calls"],
                      "trees": [parse_canon(s, c2n) for s in r["trees"]], "over": 0, "inj": 1, "cap": CAP + 1})
    chunks = [lines[i:i + 40] for i in range(0, len(lines), 40)]

    def work(args):
        i, ch = args
        return validate_trace(scratch, "ParseTrace", ch, "count_tr%d" % i, timeout=3000), ch
    with cf.ThreadPoolExecutor(max_workers=max(1, NCPU // 2)) as ex:
        for (ok, rej, tt), ch in ex.map(work, list(enumerate(chunks))):
            if not ok:
                raise Infra("ParseTrace (counted results) did not finish: " + tt["tail"][-2500:])
            res.cov["states"] += tt.get("distinct", 0)
            res.cov["transitions"] += tt.get("states", 0)
            res.cov["traces_validated_against_impl"] += len(ch)
            for (lno, lid, reasons) in rej:
                ln = ch[lno - 1]
                for reason in reasons:
                    if any(p in reason.split(":")[0] for p in props):
                        rec = {"line": ln, "reason": reason}
                        res.violation(classify_trace(rec) or ("trace|" + reason), rec)
    res.notes["counted_results_validated"] = res.notes.get("counted_results_validated", 0) + len(lines)
    res.notes["counted_results_with_10_or_more_trees"] = res.notes.get("counted_results_with_10_or_more_trees", 0) + sum(1 for ln in lines if len(ln["trees"]) >= 10)
    res.cov["distinct_nontrivial"] += sum(1 for ln in lines if len(ln["trees"]) >= 2)


# ------------------------------------------------------------------ self-test of the binding (not a registered check)
def selftest():
    """Corrupt recorded traces / drop hook events and require TLC to reject exactly those lines."""
    import copy
    res = Result("SELF", "quick", 1, "model_checking")
    scratch = Scratch("self")
    failures = []
    try:
        b = [build(scratch, "plain", ("yv_replay",))]
        ents = _corpus.curated()[:6]
        vecs = corpus_vectors(res, scratch, "self", ents, trees=False)
        blocks = [x for x in (blocks_from_vector(v, [(0, 1, 0, 1, 3, 0), (1, 0, 0, 1, 3, 0)], mems=(1,), want_trees=False, max_cases=10) for v in vecs.values()) if x]
        code = CODEMAPS["ascii"]
        recs, st = run_harness(os.path.join(b[0], "yv_replay"), blocks, args=("-t", "-s"))
        plines, elines = [], []
        for r in recs:
            if r.get("k") != "parse":
                continue
            vec = vecs[r["g"]]
            c2n = {code(t["c"]): t["n"] for t in vec["terms"]}
            c2n.update({-2: 0, -1: -1})
            terms = [t["n"] for t in vec["terms"]]
            plines.append({"id": "%s/%s/%d" % (r["g"], r["w"], r["la"]), "terms": terms, "rules": vec["rules"], "sa": 0 if vec["ds"] else 1,
                           "w": [c2n[c] for c in r["toks"]], "la": r["la"], "one": r["one"], "cost": r["cost"], "rec": r["rec"], "match": r["match"],
                           "rc": r["rc"], "root": r["root"], "amb": r["amb"], "mp1": 0, "mp2": 0, "calls": r["calls"],
                           "trees": [parse_canon(s, c2n) for s in r["trees"]], "over": r["over"]})
            evs = [{"k": ev["k"], "a": ev["a"], "c": ev["c"], "e": ev["e"], "f": c2n.get(ev["f"], -99) if ev["a"] > 0 else 0, "it": [it[:3] for it in ev["it"]]}
                   for ev in r.get("ev", []) if ev["k"] in (1, 2)]
            elines.append({"id": plines[-1]["id"], "terms": terms, "rules": vec["rules"], "n": r["n"], "la": r["la"], "ev": evs})
        # 1. untouched traces are accepted
        ok, rej, _ = validate_trace(scratch, "ParseTrace", plines[:200], "self_p0")
        rej = [x for x in rej if not all("deviation" in y for y in x[2])]
        if not ok or rej:
            failures.append("ParseTrace rejects untouched lines: %s" % rej[:2])
        ok, rej, _ = validate_trace(scratch, "EarleyTrace", elines[:200], "self_e0")
        if not ok or [x for x in rej if not all(y.startswith("DIAG") for y in x[2])]:
            failures.append("EarleyTrace rejects untouched lines: %s" % rej[:2])
        # 2. corrupted parse lines must be rejected, and only they
        bad = copy.deepcopy(plines[:60])
        victims = {}
        i1 = next(i for i, ln in enumerate(bad) if ln["trees"] and ln["trees"][0][0] == 3 and not ln["calls"])
        bad[i1]["trees"][0][1] += 1                         # abstract node name
        victims[i1 + 1] = "tree"
        i2 = next(i for i, ln in enumerate(bad) if not ln["calls"] and i != i1 and ln["root"] == 1)
        bad[i2]["calls"] = [[0, 0, 0]]                       # a syntax error that never happened
        victims[i2 + 1] = "calls"
        i3 = next((i for i, ln in enumerate(bad) if ln["calls"] and ln["sa"] == 1), None)
        if i3 is not None:
            bad[i3]["calls"][0][0] = max(0, bad[i3]["calls"][0][0] - 1) if bad[i3]["calls"][0][0] > 0 else 1   # error token moved
            victims[i3 + 1] = "errtok"
        ok, rej, _ = validate_trace(scratch, "ParseTrace", bad, "self_p1")
        got = {x[0] for x in rej if not all("deviation" in y for y in x[2])}
        if not ok or not set(victims) <= got or len(got - set(victims)) > 0:
            failures.append("ParseTrace corruption test: corrupted lines %s, rejected %s" % (sorted(victims), sorted(got)))
        # 3. corrupted / incomplete set traces
        bad = copy.deepcopy(elines[:60])
        j1 = next(i for i, ln in enumerate(bad) if len(ln["ev"]) >= 3 and ln["ev"][2]["it"])
        bad[j1]["ev"][2]["it"][0][2] += 1                    # distance (hence origin) of an item
        j2 = next(i for i, ln in enumerate(bad) if len(ln["ev"]) >= 4 and i != j1 and [e["a"] for e in ln["ev"]] == list(range(len(ln["ev"]))))
        del bad[j2]["ev"][1]                                 # a hook event is missing
        ok, rej, _ = validate_trace(scratch, "EarleyTrace", bad, "self_e1")
        got = {x[0] for x in rej if not all(y.startswith("DIAG") for y in x[2])}
        if not ok or not {j1 + 1, j2 + 1} <= got:
            failures.append("EarleyTrace corruption test: corrupted lines %s, rejected %s" % ([j1 + 1, j2 + 1], sorted(got)))
        # 3b. the translation walk (MpTrace.tla): untouched lines accepted; a moved end of a state, a reduction with another origin and a
        #     dropped hook event (a state that nothing generated) rejected
        recs_m, _ = run_harness(os.path.join(b[0], "yv_replay"), blocks, args=("-t", "-s", "-m"))
        mlines, _ = mp_lines_from_recs(recs_m, vecs, code)
        mlines = mlines[:80]
        ok, rej, _ = validate_trace(scratch, "MpTrace", mlines, "self_m0")
        if not ok or not mlines or [x for x in rej if not all(y.startswith("DIAG") for y in x[2])]:
            failures.append("MpTrace rejects untouched lines (%d lines): %s" % (len(mlines), rej[:2]))
        bad = copy.deepcopy(mlines)
        m1 = next(i for i, ln in enumerate(bad) if len(ln["mp"]) >= 4)
        k1 = next(k for k, ev in enumerate(bad[m1]["mp"]) if ev[0] == 0 and k >= 2)
        bad[m1]["mp"][k1][4] += 1                             # a state ends one position later
        m2 = next(i for i, ln in enumerate(bad) if i != m1 and any(ev[0] == 1 and ev[3] > 0 for ev in ln["mp"]))
        k2 = next(k for k, ev in enumerate(bad[m2]["mp"]) if ev[0] == 1 and ev[3] > 0)
        bad[m2]["mp"][k2][3] -= 1                             # a reduction with another origin
        m3 = next(i for i, ln in enumerate(bad) if i not in (m1, m2) and sum(1 for ev in ln["mp"] if ev[0] == 1) >= 2)
        k3 = next(k for k, ev in enumerate(bad[m3]["mp"]) if ev[0] == 1)
        del bad[m3]["mp"][k3]                                 # a hook event is missing: its successor states come from nowhere
        ok, rej, _ = validate_trace(scratch, "MpTrace", bad, "self_m1")
        got = {x[0] for x in rej if not all(y.startswith("DIAG") for y in x[2])}
        if not ok or got != {m1 + 1, m2 + 1, m3 + 1}:
            failures.append("MpTrace corruption test: corrupted lines %s, rejected %s" % ([m1 + 1, m2 + 1, m3 + 1], sorted(got)))
        # 4. lookahead groups
        groups = [{"id": "g%d" % i, "kind": "C09", "outs": [{"la": 0, "dbg": 0, "obs": {"rc": 0, "trees": ["x"]}}, {"la": 1, "dbg": 0, "obs": {"rc": 0, "trees": ["x"]}}]} for i in range(5)]
        groups[3]["outs"][1]["obs"]["trees"] = ["y"]
        ok, rej, _ = validate_trace(scratch, "LaTrace", groups, "self_l1")
        if not ok or {x[0] for x in rej} != {4}:
            failures.append("LaTrace corruption test: rejected %s" % rej)
        # 5. recovery traces (RecTrace.tla): callbacks against the oracle, recorded search against the machine
        cur = {e["id"]: e for e in _corpus.curated()}
        ents2 = [dict(cur["stmts"], inputs=[[1, 2, 1, 1, 2, 1, 2], [1, 1, 2, 2, 1, 2], [2, 1, 2]], maxlen=0), _corpus.nested_error_family()[2]]
        ents2[1] = dict(ents2[1], inputs=ents2[1]["inputs"][:12])
        rblocks, rmeta = [], {}
        for e in ents2:
            vec = {"id": e["id"], "terms": e["terms"], "rules": e["rules"], "dn": [], "ds": [], "cases": [{"w": w, "sent": False, "nd": 0, "fo": -1} for w in e["inputs"]]}
            bb = blocks_from_vector(vec, [(0, 1, 0, 1, 2, 0)], mems=(1,), want_trees=False)
            rblocks.append([ln.replace("X sent=0 nd=-1", "X sent=-1") if ln.startswith("X ") else ln for ln in bb])
            rmeta[e["id"]] = e
        rrecs, st = run_harness(os.path.join(b[0], "yv_replay"), rblocks, args=("-t", "-s"))
        rl = []
        for r in rrecs:
            if r.get("k") != "parse" or not r["calls"]:
                continue
            e = rmeta[r["g"]]
            c2n = {code(t["c"]): t["n"] for t in e["terms"]}
            base = {"terms": [t["n"] for t in e["terms"]], "rules": e["rules"], "w": [c2n[c] for c in r["toks"]], "match": r["match"], "la": 0}
            rl.append(dict(base, id=r["w"] + "/o", kind="oracle", calls=[c[:3] for c in r["calls"]]))
            rl.append(dict(base, id=r["w"] + "/m", kind="mach", pops=[[ev["a"], ev["b"], ev["c"], ev["d"], ev["e"]] for ev in r["ev"] if ev["k"] == 4],
                           recs=[[ev["a"], ev["b"], ev["c"], ev["d"], ev["e"]] for ev in r["ev"] if ev["k"] == 3]))
        cfgx = "CONSTANTS\n  GrammarsR <- DummyG\n  InputsR <- DummyI\n  MatchVals = {1}\n"
        ok, rej, _ = validate_trace(scratch, "RecTrace", rl, "self_r0", cfg_extra=cfgx)
        if not ok or rej or len(rl) < 8:
            failures.append("RecTrace rejects untouched lines (or too few lines: %d): %s" % (len(rl), rej[:2]))
        bad = copy.deepcopy(rl)
        k1 = next(i for i, ln in enumerate(bad) if ln["kind"] == "oracle")
        bad[k1]["calls"][0][2] += 3                          # three more tokens reported as ignored
        k2 = next(i for i, ln in enumerate(bad) if ln["kind"] == "oracle" and i != k1 and ln["calls"][0][0] > 0)
        bad[k2]["calls"][0][0] -= 1                          # error token moved
        k3 = next(i for i, ln in enumerate(bad) if ln["kind"] == "mach" and len(ln["pops"]) >= 2)
        del bad[k3]["pops"][1]                               # a REC_POP hook event is missing
        k4 = next(i for i, ln in enumerate(bad) if ln["kind"] == "mach" and i != k3 and ln["pops"])
        bad[k4]["pops"][0][2] += 1                           # cost of a popped state
        ok, rej, _ = validate_trace(scratch, "RecTrace", bad, "self_r1", cfg_extra=cfgx)
        got = {x[0]: x[2] for x in rej}
        want = {k1 + 1: "C08", k2 + 1: "C06", k3 + 1: "DRIFT", k4 + 1: "DRIFT"}
        if not ok or set(got) != set(want) or any(not any(y.startswith(pref) for y in got.get(k, [])) for k, pref in want.items()):
            failures.append("RecTrace corruption test: wanted %s, rejected %s" % (want, {k: v[:1] for k, v in got.items()}))
        # 6. lookahead machines (LookTrace.tla): a recorded set with one situation removed is reported as drift, untouched lines are not
        ll = []
        for r in recs:
            if r.get("k") != "parse" or r["la"] != 1 or r["rc"] != 0 or r["calls"]:
                continue
            vec = vecs[r["g"]]
            if any(0 in rr["r"] for rr in vec["rules"]):
                continue
            c2n = {code(t["c"]): t["n"] for t in vec["terms"]}
            sets = []
            for ev in r.get("ev", []):
                if ev["k"] == 1 and ev["a"] == len(sets):
                    sets.append([it[:3] for it in ev["it"]])
            if len(sets) >= 3:
                ll.append({"id": "%s/%s" % (r["g"], r["w"]), "terms": [t["n"] for t in vec["terms"]], "rules": vec["rules"], "w": [c2n[c] for c in r["toks"]], "la": 1, "sets": sets})
        ll = ll[:30]
        cfgl = "CONSTANTS\n  GrammarsC <- DummyGL\n  TermsC = {1}\n  MaxPl = 1\n"
        if len(ll) >= 4:
            bad = copy.deepcopy(ll)
            m1 = next(i for i, ln in enumerate(bad) if len(ln["sets"][2]) >= 2)
            del bad[m1]["sets"][2][0]
            ok, rej, _ = validate_trace(scratch, "LookTrace", bad, "self_k1", cfg_extra=cfgl)
            if not ok or {x[0] for x in rej} != {m1 + 1}:
                failures.append("LookTrace corruption test: corrupted line %d, reported %s" % (m1 + 1, sorted(x[0] for x in rej)))
        else:
            failures.append("LookTrace self-test: too few lines (%d)" % len(ll))
    finally:
        scratch.cleanup()
    for f in failures:
        print("SELFTEST FAILURE:", f)
    print("selftest:", "FAILED" if failures else "ok (corrupted trace lines and a dropped hook event are rejected, untouched ones accepted)")
    return 1 if failures else 0


# ------------------------------------------------------------------ longer inputs through trace validation (membership instead of enumeration)
def long_sentence_entries():
    """Curated grammars with listed inputs of 7-13 tokens (sentences and near-sentences): too long for the enumerating oracle
    (set of all translations), fine for Member!IsTranslation / IsRepairTranslation on the trees the library returns."""
    cur = {e["id"]: e for e in _corpus.curated()}
    sel = {
        "expr": [[1, 2, 1, 3, 1, 2, 1], [4, 1, 2, 1, 5, 3, 4, 1, 2, 1, 5], [1, 3, 1, 3, 1, 2, 1, 3, 1], [4, 4, 1, 2, 1, 5, 3, 1, 5, 2, 1], [1, 2, 1, 2, 3, 1, 2, 1], [4, 1, 2, 1, 3, 1, 5, 5, 2, 1]],
        "ambexpr": [[1, 2, 1, 3, 1, 2, 1], [1, 3, 1, 3, 1, 3, 1], [1, 2, 1, 2, 1, 3, 1, 2, 1]],
        "llist": [[1, 2] * 5 + [1], [1, 2] * 4 + [2, 1]],
        "rlist": [[1, 2] * 5 + [1]],
        "dangling": [[1, 1, 3, 2, 3], [1, 1, 1, 3, 2, 3, 2, 3], [1, 3, 2, 1, 3, 2, 3]],
        "palin": [[1, 2, 1, 2, 1, 2, 1], [1, 2, 2, 1, 1, 2, 2, 1], [1, 2, 1, 1, 2, 1, 2]],
        "stmts": [[1, 2, 1, 1, 2, 1, 2], [1, 1, 2, 2, 1, 2], [1, 2, 2, 2, 1, 2, 1, 2], [2, 1, 2, 1, 1, 1, 2]],
        "nestederr": [[1, 3, 3, 4, 2], [1, 3, 3, 3, 2], [1, 3, 4, 2], [1, 3, 3, 4, 2, 2], [1, 4, 3, 3, 4, 2]],
        "perm3": [[1, 1, 1, 1, 3], [1, 1, 1, 3]],
        "nullmid": [[1, 1, 1, 1, 3], [1, 1, 1, 2, 3], [1, 1, 1, 1, 2, 3]],
        "sameruleorig": [[1] * 6, [1] * 7],
        "ctxfragR": [[1, 3, 7, 8, 4, 2, 1, 5, 7, 8, 6, 2], [1, 3, 7, 8, 6, 2, 1, 5, 7, 8, 6, 2]],
        "staleplace": [[3, 3, 1, 2, 2, 3, 1, 2], [3, 1, 2, 2, 1, 2]],
        "brackets": [[1, 2, 3, 7, 7, 6, 2, 5, 7, 7, 6], [1, 2, 3, 7, 7, 6, 2, 5, 7, 7, 6, 2, 5, 7, 7, 4], [1, 2, 5, 7, 4, 2, 3, 7, 7, 4, 2, 3, 7, 7, 4]],
    }
    out = []
    for gid, inputs in sel.items():
        e = dict(cur[gid])
        e["maxlen"] = 0
        e["inputs"] = inputs
        out.append(e)
    return out


def long_trace_part(res, scratch, tier, seed, builds, props):
    """Parses of the listed longer inputs, recorded and validated by TLC against ParseTrace.tla (every denoted tree must be a
    translation of a derivation - or of a repair of the reported size -, callbacks, ambiguity flag, paired cost runs)."""
    import concurrent.futures as cf
    ents = long_sentence_entries()
    # random grammars with translations, bigger than those of the enumerating corpus (4 nonterminals, 3 terminals, up to 9 rules of up
    # to 4 symbols, some with `error'), on generated sentences and damaged sentences of 6-12 tokens
    rnd = random.Random(seed + 31)
    nbig = 80 if tier == "quick" else 500
    for g in _corpus.random_grammars(seed + 8000, nbig, nnts=4, nterms=3, maxrules=9, maxrhs=4, trans=True, maxlen=0, empty_bias=0.08) + \
            _corpus.random_grammars(seed + 8500, nbig // 2, nnts=3, nterms=3, maxrules=7, maxrhs=3, trans=True, err=True, maxlen=0):
        sents = [w for w in _corpus.gen_sentences(g["rules"], rnd, 6, 12) if len(w) >= 5][:3]
        if not sents:
            continue
        ents.append(dict(g, id="big-" + g["id"], inputs=sents + _corpus.damaged_inputs(sents[:1], g["alphabet"], rnd, 1), maxlen=0))
    code = CODEMAPS["ascii"]
    mx = [(la, one, cost, 1, m, 0) for la in (0, 1, 2) for (one, cost) in ((1, 0), (0, 0), (0, 1), (1, 1)) for m in ((3,) if tier == "quick" else (1, 3))]
    blocks, meta = [], {}
    for e in ents:
        # the random grammars are defined with strict = 0 (ds non-empty), the curated ones with strict = 1
        vec = {"id": e["id"], "terms": e["terms"], "rules": e["rules"], "dn": [], "ds": ([1] if e["id"].startswith("big-") else []),
               "cases": [{"w": w, "sent": False, "nd": 0, "fo": -1} for w in e["inputs"]]}
        b = blocks_from_vector(vec, mx, mems=(0, 1), want_trees=False)
        b = [ln.replace("X sent=0 nd=-1", "X sent=-1") if ln.startswith("X ") else ln for ln in b]
        blocks.append(b)
        meta[e["id"]] = e
    lines = []
    recs, st = run_harness(os.path.join(builds[0], "yv_replay"), blocks, args=("-t",))
    for r in recs:
        if r.get("e") == "Abort":
            res.violation(abort_key(r), dict(r, block=(r.get("block") or [])[:20]))
        if r.get("k") != "parse" or r["over"]:
            continue
        e = meta[r["g"]]
        c2n = {code(t["c"]): t["n"] for t in e["terms"]}
        if len(r["trees"]) > 40:
            continue      # membership of each tree is checked; very large denoted sets are left to the enumerating families
        lines.append({"id": "%s/%s/%d,%d,%d,%d,%d" % (r["g"], r["w"], r["la"], r["one"], r["cost"], r["rec"], r["match"]), "terms": [t["n"] for t in e["terms"]], "rules": e["rules"],
                      "sa": 0 if r["g"].startswith("big-") else 1, "w": [c2n[c] for c in r["toks"]], "la": r["la"], "one": r["one"], "cost": r["cost"], "rec": r["rec"],
                      "match": r["match"], "rc": r["rc"],
                      "root": r["root"], "amb": r["amb"], "mp1": r.get("mp1", 0), "mp2": r.get("mp2", 0), "calls": r["calls"],
                      "trees": [parse_canon(s, c2n) for s in r["trees"]], "over": 0, "_g": r["g"]})
    base = {}
    for ln in lines:
        if ln["cost"] == 0 and ln["one"] == 0:
            base[(ln["_g"], tuple(ln["w"]), ln["la"], ln["rec"], ln["match"])] = ln["trees"]
    for ln in lines:
        if ln["cost"] == 1:
            b0 = base.get((ln["_g"], tuple(ln["w"]), ln["la"], ln["rec"], ln["match"]))
            if b0 is not None:
                ln["trees0"] = b0
    chunks = [lines[i:i + 60] for i in range(0, len(lines), 60)]

    def work(args):
        i, ch = args
        return validate_trace(scratch, "ParseTrace", [{k: v for k, v in ln.items() if k != "_g"} for ln in ch], "long_tr%d" % i, timeout=3000), ch
    with cf.ThreadPoolExecutor(max_workers=max(1, NCPU // 2)) as ex:
        for (ok, rej, tt), ch in ex.map(work, list(enumerate(chunks))):
            if not ok:
                raise Infra("ParseTrace (long inputs) did not finish: " + tt["tail"][-2500:])
            res.cov["states"] += tt.get("distinct", 0)
            res.cov["transitions"] += tt.get("states", 0)
            res.cov["traces_validated_against_impl"] += len(ch)
            for (lno, lid, reasons) in rej:
                ln = ch[lno - 1]
                for reason in reasons:
                    if any(p in reason.split(":")[0] for p in props):
                        rec = {"line": {k: v for k, v in ln.items() if k != "_g"}, "reason": reason}
                        res.violation(classify_trace(rec) or ("trace|" + reason), rec)
    res.notes["long_input_parses_validated"] = res.notes.get("long_input_parses_validated", 0) + len(lines)
