"""Per-property checks (see DESIGN.md section 5)."""
import json, os, random, subprocess, time
from yvlib import *
from families import *

LEVELS = {"C12": "exploration", "C17": "fault_enumeration"}

TB = ["TLC 1.8.0 (explicit-state evaluation of the TLA+ oracle)", "CommunityModules Json/SequencesExt",
      "harness tree walker/canonicaliser (harness/yv_replay.c)", "gcc/clang, ASan+UBSan as observers", "bison 3.8"]


# ------------------------------------------------------------------ known-finding recognisers
def classify(r):
    """Map a harness record to a finding key when the record shows the signature of a recorded
    finding (input class + call site); otherwise to a generic key (=> VIOLATION)."""
    vec = r.get("vector") or {}
    rules = vec.get("rules", [])
    what = r.get("what", "")
    if r.get("e") == "Abort":
        return abort_key(r)
    return mismatch_key(r)


def only(prop):
    def f(r):
        if owner(r["what"], r["cfg"]) == prop:
            return classify(dict(r))
        return None
    return f


def std_builds(scratch, tier, harnesses=("yv_replay",)):
    b = [build(scratch, "plain", harnesses)]
    return b


# ------------------------------------------------------------------ C01
def check_C01(res, scratch, tier, seed):
    builds = std_builds(scratch, tier)
    asan = build(scratch, "asan", ("yv_replay",))
    res.cov["trusted_base"] = TB
    res.cov["rule"] = ("TLC enumerates every rule sequence of the family (MCGram.tla), evaluates Deriv!IsSentence for every input "
                       "up to MaxLen and prints a vector; the harness replays it under lookahead {0,1,2} x one_parse x cost x recovery. "
                       "non-trivial = accepted grammar with a nullable/recursive symbol or alternative rules")
    matrix = full_matrix()
    mk = lambda codemap: (lambda vec: blocks_from_vector(vec, matrix, codemap=codemap, mems=(0, 1, 0, 2), want_trees=False))
    # F2: all grammars with <= 2 rules, |rhs| <= 2, 2 terminals, 2 nonterminals, inputs <= 4
    run_family(res, scratch, "F2", mcgram_cfg([1, 2], [11, 12], 2, 2, 4, False, [0], False, ("Emit", "Lemmas")),
               mk("ascii"), builds=builds + [asan], mine=only("C01"))
    if tier == "thorough":
        run_family(res, scratch, "F3", mcgram_cfg([1, 2], [11, 12], 3, 2, 4, False, [0], False), mk("sparse"),
                   builds=builds, mine=only("C01"), timeout=3000)
        run_family(res, scratch, "F2r3", mcgram_cfg([1, 2], [11, 12], 2, 3, 5, False, [0], False), mk("dense"),
                   builds=builds, mine=only("C01"), timeout=3000)
    else:
        run_family(res, scratch, "F2r3s", mcgram_cfg([1], [11, 12], 2, 3, 5, False, [0], False), mk("sparse"),
                   builds=builds, mine=only("C01"))
    res.cov["exhaustive"] = True
    res.assumptions = ["small-scope: exhaustive only over the stated families", "vectors are computed by TLC from spec/Deriv.tla"]


def replay(path):
    print("replay file:", path)
    d = json.load(open(path))
    print(json.dumps(d, indent=1)[:4000])
    return 0
