"""Shared machinery of the yaep verification driver (bin/yv).

Python only transports data here: it starts TLC, turns the JSON vectors TLC printed into
the line format of the C harness, starts the harness on the library built from /repo's
current working tree, collects mismatches / trace rejections, classifies them against
known_findings.txt and writes the evidence file.  Every verdict comes from TLA+ formulas
evaluated by TLC (vectors, trace validation) compared with what the code did.
"""
import json, os, re, shutil, subprocess, sys, tempfile, time, hashlib, random

VERIF = os.path.dirname(os.path.dirname(os.path.abspath(__file__)))
REPO = os.environ.get("YV_REPO", "/repo")
SPEC = os.path.join(VERIF, "spec")
OUTROOT = os.environ.get("YV_OUT", VERIF)     # evidence/ and replays/ go here (seeded-change trials write elsewhere)
JAR = "/opt/veriftools/tla/tla2tools.jar:/opt/veriftools/tla/CommunityModules-deps.jar"
NCPU = os.cpu_count() or 4


class Infra(Exception):
    """Infrastructure failure (build, TLC crash): never reported as a violation."""


# ----------------------------------------------------------------------------- scratch
class Scratch:
    def __init__(self, tag):
        base = os.environ.get("YV_SCRATCH_BASE", "/tmp")
        self.dir = tempfile.mkdtemp(prefix="yv_%s_" % tag, dir=base)

    def path(self, *a):
        return os.path.join(self.dir, *a)

    def cleanup(self):
        if os.environ.get("YV_KEEP"):
            sys.stderr.write("scratch kept: %s\n" % self.dir)
        else:
            shutil.rmtree(self.dir, ignore_errors=True)


# ----------------------------------------------------------------------------- build
def build(scratch, mode="plain", harnesses=("yv_replay",), guard=True):
    out = scratch.path("build_" + mode)
    env = dict(os.environ, REPO=REPO, HARNESSES=" ".join(harnesses))
    if not guard:
        env["YV_GUARD"] = "off"
    p = subprocess.run([os.path.join(VERIF, "harness", "build.sh"), out, mode], env=env,
                       stdout=subprocess.PIPE, stderr=subprocess.STDOUT, text=True)
    ok = p.returncode == 0 and all(os.path.exists(os.path.join(out, h)) and os.path.exists(os.path.join(out, h + "xx"))
                                   for h in harnesses)
    if not ok:
        raise Infra("build failed (%s):\n%s" % (mode, p.stdout[-3000:]))
    return out


# ----------------------------------------------------------------------------- TLC
def run_tlc(scratch, module, cfg_text, tag, workers=None, timeout=1500, simulate=None, depth=None,
            env=None, heap="12g", gc="-XX:+UseSerialGC", extra=(), deadlock=False, coverage=False, dfs=False):
    """Run TLC on spec/<module>.tla with a generated config.  Returns dict with output lines,
    states, distinct, and status: 'ok' | 'violation' | 'error'."""
    cfg = scratch.path("%s.cfg" % tag)
    with open(cfg, "w") as f:
        f.write(cfg_text)
    meta = scratch.path("meta_" + tag)
    out = scratch.path("%s.out" % tag)
    jtmp = scratch.path("jtmp")
    os.makedirs(jtmp, exist_ok=True)
    jopts = [gc, "-Xmx" + heap, "-Xss16m", "-Djava.io.tmpdir=" + jtmp]     # TLC leaves a tlc-* directory per run in java.io.tmpdir
    if dfs:
        jopts.append("-Dtlc2.tool.queue.IStateQueue=StateDeque")
    cmd = ["java"] + jopts + ["-cp", JAR, "tlc2.TLC", "-workers", str(workers or NCPU), "-metadir", meta,
                              "-noGenerateSpecTE", "-config", cfg]
    if simulate:
        cmd += ["-simulate", "num=%d" % simulate]
    if depth:
        cmd += ["-depth", str(depth)]
    if coverage:
        cmd += ["-coverage", "1"]
    if not deadlock:
        pass
    cmd += list(extra) + [os.path.join(SPEC, module + ".tla")]
    e = dict(os.environ)
    if env:
        e.update(env)
    t0 = time.time()
    with open(out, "w") as fo:
        try:
            p = subprocess.run(cmd, stdout=fo, stderr=subprocess.STDOUT, env=e, timeout=timeout, cwd=SPEC)
            rc = p.returncode
        except subprocess.TimeoutExpired:
            rc = -9
    res = {"out": out, "rc": rc, "wall": time.time() - t0, "states": 0, "distinct": 0, "cmd": " ".join(cmd)}
    tail = []
    with open(out, errors="replace") as f:
        for line in f:
            if line.startswith('<<"VEC"') or line.startswith("<<\"VEC\""):
                continue
            tail.append(line)
            if len(tail) > 400:
                tail.pop(0)
            m = re.match(r"(\d+) states generated, (\d+) distinct states found", line)
            if m:
                res["states"], res["distinct"] = int(m.group(1)), int(m.group(2))
            m = re.match(r".*The depth of the complete state graph search is (\d+)", line)
            if m:
                res["depth"] = int(m.group(1))
    res["tail"] = "".join(tail)
    if rc == 0:
        res["status"] = "ok"
    elif rc in (12, 13) or "is violated" in res["tail"] or "Invariant" in res["tail"] and "violated" in res["tail"]:
        res["status"] = "violation"
    elif rc == -9:
        res["status"] = "timeout"
    else:
        res["status"] = "error"
    return res


def tlc_vectors(path):
    """Yield the JSON vectors TLC printed with PrintT(<<"VEC", ToJson(..)>>)."""
    with open(path, errors="replace") as f:
        for line in f:
            if line.startswith('<<"VEC", "'):
                s = line.rstrip("\n")
                s = s[len('<<"VEC", '):]
                if s.endswith(">>"):
                    s = s[:-2]
                try:
                    yield json.loads(json.loads(s))
                except Exception:
                    continue


def sany(module_path):
    p = subprocess.run(["java", "-cp", JAR, "tla2sany.SANY", module_path], stdout=subprocess.PIPE,
                       stderr=subprocess.STDOUT, text=True, cwd=os.path.dirname(module_path))
    return p.returncode == 0 and "Semantic errors" not in p.stdout and "Parse Error" not in p.stdout and "Could not" not in p.stdout, p.stdout


# ----------------------------------------------------------------------------- names
def is_term_name(k):
    return 0 < k < 10 or 100 <= k < 1000


def tname(k):
    return "error" if k == 0 else "$eof" if k == -1 else "$S" if k == -2 else ("t%d" % k if is_term_name(k) else "N%d" % k)


CODEMAPS = {
    "ascii": lambda k: 96 + k,
    "dense": lambda k: k,
    "sparse": lambda k: 7001 * k + 3,      # range > 10000: the code->symbol vector is not used, hash table is
    "zero": lambda k: k - 1,               # includes code 0
    "gapzero": lambda k: {1: 0, 2: 2, 8: 1, 9: 300}.get(k, 400 + k),   # declared 0 and 2; 8 -> gap code 1; 9 -> far outside
    "gap": lambda k: {1: 97, 2: 99, 8: 98, 9: 200}.get(k, 400 + k),
}


def canon_tree(t, code):
    k = t[0]
    if k == 0:
        return "-"
    if k == 1:
        return "!"
    if k == 2:
        return "t%d@%d" % (code(t[1]), t[2])
    return "a%d/%d(%s)" % (t[1], t[2], " ".join(canon_tree(c, code) for c in t[3]))


def rule_line(r, null_empty=False):
    an = "-" if r["an"] == 0 else '""' if r["an"] == 77 else "a%d" % r["an"]      # 77: the EMPTY abstract node name
    tr = ["N" if e == 0 else str(e - 1) for e in r["t"]]
    if null_empty and not tr:
        # an empty translation handed over as a NULL pointer instead of an empty array (the harness passes NULL for a count of -1)
        return " ".join(["R", tname(r["l"]), an, str(r["c"]), str(len(r["r"]))] + [tname(s) for s in r["r"]] + ["-1"])
    # no empty fields: the harness splits at single blanks (an empty right-hand side used to shift the translation count)
    return " ".join(["R", tname(r["l"]), an, str(r["c"]), str(len(r["r"]))] + [tname(s) for s in r["r"]] + [str(len(tr))] + tr)


# ----------------------------------------------------------------------------- harness runs
def split_blocks(lines):
    """Split harness input into blocks starting at 'G ' lines."""
    blocks, cur = [], []
    for ln in lines:
        if ln.startswith("G ") and cur:
            blocks.append(cur)
            cur = []
        cur.append(ln)
    if cur:
        blocks.append(cur)
    return blocks


def run_harness(binary, blocks, args=(), timeout=900, jobs=None):
    """Run the harness over blocks in parallel chunks.  A crash (Abort event / non-zero exit) is
    recorded as an event attributed to the block being executed and the remaining blocks of that chunk
    are run in a fresh process.  Returns (records, stats)."""
    jobs = jobs or NCPU
    n = len(blocks)
    if n == 0:
        return [], {"procs": 0}
    chunks = [blocks[i::jobs] for i in range(min(jobs, n))]
    records = []
    procs = 0
    pending = [(c, 0) for c in chunks if c]
    running = []

    def start(chunk, startidx):
        data = "\n".join("\n".join(b) for b in chunk[startidx:]) + "\n"
        p = subprocess.Popen([binary] + list(args), stdin=subprocess.PIPE, stdout=subprocess.PIPE,
                             stderr=subprocess.DEVNULL, text=True)
        return p, data

    # simple: run sequentially-in-parallel using communicate in threads
    import concurrent.futures as cf

    def work(chunk):
        recs = []
        idx = 0
        nproc = 0
        while idx < len(chunk):
            data = "\n".join("\n".join(b) for b in chunk[idx:]) + "\n"
            nproc += 1
            try:
                p = subprocess.run([binary] + list(args), input=data, stdout=subprocess.PIPE,
                                   stderr=subprocess.DEVNULL, text=True, timeout=timeout)
                out, rc = p.stdout, p.returncode
            except subprocess.TimeoutExpired as ex:
                out = ex.stdout if isinstance(ex.stdout, str) else (ex.stdout or b"").decode(errors="replace")
                rc = -9
            lines = out.splitlines()
            summary = None
            abort = None
            for ln in lines:
                try:
                    r = json.loads(ln)
                except Exception:
                    continue
                if r.get("k") == "summary":
                    summary = r
                if r.get("e") == "Abort":
                    abort = r
                recs.append(r)
            if summary is not None and rc == 0:
                break
            # crashed: find the block it was in
            where = (abort or {}).get("at", "")
            m = re.search(r"g=(\S+)", where)
            crashed = None
            if m:
                g = m.group(1)
                for j in range(idx, len(chunk)):
                    if chunk[j][0] == "G " + g:
                        crashed = j
                        break
            if abort is None:
                recs.append({"e": "Abort", "sig": rc, "at": where or "unknown (no Abort line; exit %s)" % rc})
            recs[-1 if abort is None else recs.index(abort)]["block"] = chunk[crashed] if crashed is not None else None
            if crashed is None:
                break   # cannot attribute: stop this chunk
            idx = crashed + 1
        return recs, nproc

    with cf.ThreadPoolExecutor(max_workers=jobs) as ex:
        for recs, nproc in ex.map(work, chunks):
            records.extend(recs)
            procs += nproc
    return records, {"procs": procs}


# ----------------------------------------------------------------------------- findings
class Findings:
    def __init__(self):
        self.known = []   # (property, key, text)
        self.fixed = []
        p = os.path.join(VERIF, "known_findings.txt")
        if os.path.exists(p):
            for ln in open(p):
                ln = ln.strip()
                if ln.startswith("finding:"):
                    m = re.match(r"finding:\s+property=(\S+)\s+key=(\S+)\s+(.*)", ln)
                    if m:
                        self.known.append((m.group(1), m.group(2), m.group(3)))
                elif ln.startswith("fixed:"):
                    self.fixed.append(ln)

    def lookup(self, prop, key):
        for (p, k, text) in self.known:
            if k == key and p == prop:
                return text
        return None


# ----------------------------------------------------------------------------- result/evidence
class Result:
    def __init__(self, prop, tier, seed, level):
        self.prop, self.tier, self.seed, self.level = prop, tier, seed, level
        self.t0 = time.time()
        self.violations = []      # (key, record)
        self.known_hits = {}      # key -> count
        self.cov = {"states": 0, "transitions": 0, "traces_validated_against_impl": 0, "samples": [],
                    "evaluations": 0, "distinct_nontrivial": 0, "rule": "", "exhaustive": False,
                    "trusted_base": []}
        self.assumptions = []
        self.notes = {}
        self.findings = Findings()

    def add_tlc(self, res):
        self.cov["states"] += res.get("distinct", 0)
        self.cov["transitions"] += res.get("states", 0)

    def violation(self, key, record, prop=None):
        """Classify a rejected case: known finding (by key) or violation."""
        text = self.findings.lookup(prop or self.prop, key)
        if text is not None:
            self.known_hits.setdefault(key, [0, text, record])
            self.known_hits[key][0] += 1
        else:
            self.violations.append((key, record))

    def finish(self):
        os.makedirs(OUTROOT, exist_ok=True)
        os.makedirs(os.path.join(OUTROOT, "evidence"), exist_ok=True)
        os.makedirs(os.path.join(OUTROOT, "replays"), exist_ok=True)
        wall = time.time() - self.t0
        # extent of the recorded findings: known_extent.json (committed, written only by `YV_PIN=1 bin/yv check ...`) holds, per
        # property/tier/seed, how many replayed cases each finding explained on the unchanged tree.  The cases are a deterministic
        # function of tier and seed, so more cases than recorded means that inputs fail which the finding does not list.
        ext_path = os.path.join(VERIF, "known_extent.json")
        try:
            extent = json.load(open(ext_path))
        except Exception:
            extent = {}
        pin_key = "%s|%s|%d" % (self.prop, self.tier, self.seed)
        if os.environ.get("YV_PIN"):
            extent[pin_key] = {k: v[0] for k, v in sorted(self.known_hits.items())}
            with open(ext_path, "w") as f:
                json.dump(extent, f, indent=1, sort_keys=True)
        elif pin_key in extent:
            for key, (cnt, text, rec) in sorted(self.known_hits.items()):
                pinned = extent[pin_key].get(key, 0)
                if cnt > pinned:
                    self.violations.append(("more cases than the recorded finding %s lists: %d > %d" % (key, cnt, pinned),
                                            {"finding": key, "met": cnt, "recorded_extent": pinned, "example": rec}))
        for key, (cnt, text, rec) in sorted(self.known_hits.items()):
            print("KNOWN-FINDING: property=%s key=%s x%d %s" % (self.prop, key, cnt, text))
        paths = []
        seen = {}
        for key, rec in self.violations:
            seen.setdefault(key, []).append(rec)
        if os.environ.get("YV_DUMP"):
            with open(os.environ["YV_DUMP"], "w") as f:
                for key, rec in self.violations:
                    f.write(json.dumps({"key": key, "rec": rec}, default=str) + "\n")
                for key, (cnt, text, rec) in self.known_hits.items():
                    f.write(json.dumps({"key": key, "known": cnt, "rec": rec}, default=str) + "\n")
        for key, recs in seen.items():
            h = hashlib.sha1((self.prop + key + json.dumps(recs[0], sort_keys=True, default=str)).encode()).hexdigest()[:10]
            path = os.path.join(OUTROOT, "replays", "%s_%s.json" % (self.prop, h))
            with open(path, "w") as f:
                json.dump({"property": self.prop, "key": key, "count": len(recs), "cases": recs[:5]}, f, indent=1, default=str)
            paths.append(path)
            print("VIOLATION property=%s replay=%s" % (self.prop, path))
            print("  key=%s count=%d first=%s" % (key, len(recs), json.dumps(recs[0], default=str)[:600]))
        ev = {"property_id": self.prop, "tier": self.tier, "seed": self.seed, "level": self.level,
              "coverage": dict(self.cov, known_findings_met={k: v[0] for k, v in self.known_hits.items()}, **self.notes),
              "assumptions": self.assumptions, "wall_s": round(wall, 2), "violations": len(seen)}
        if not ev["coverage"]["samples"]:
            ev["coverage"]["samples"] = ["(none)"]
        with open(os.path.join(OUTROOT, "evidence", "%s.json" % self.prop), "w") as f:
            json.dump(ev, f, indent=1, default=str)
        print("%s %s: %s  states=%d evaluations=%d nontrivial=%d wall=%.1fs" % (
            self.prop, self.tier, "VIOLATIONS=%d" % len(seen) if seen else "ok", self.cov["states"],
            self.cov["evaluations"], self.cov["distinct_nontrivial"], wall))
        return 1 if seen else 0


# ----------------------------------------------------------------------------- trace validation
def parse_canon(s, code2name):
    """Canonical tree string of the harness -> nested list (the specification's tree value)."""
    pos = 0

    def node():
        nonlocal pos
        if s[pos] == "-":
            pos += 1
            return [0]
        if s[pos] == "!":
            pos += 1
            return [1]
        if s[pos] == "t":
            m = re.match(r"t(-?\d+)@(\d+|\?)", s[pos:])
            pos += m.end()
            return [2, code2name.get(int(m.group(1)), -99), int(m.group(2)) if m.group(2) != "?" else -99]
        m = re.match(r"a(\d+)/(-?\d+)\(", s[pos:])
        if not m:
            raise ValueError("bad canonical tree at %d: %s" % (pos, s))
        pos += m.end()
        kids = []
        while s[pos] != ")":
            if s[pos] == " ":
                pos += 1
                continue
            kids.append(node())
        pos += 1
        return [3, int(m.group(1)), int(m.group(2)), kids]
    t = node()
    return t


def validate_trace(scratch, module, lines, tag, timeout=1500, heap="8g", cfg_extra=""):
    """Write ndjson, run the trace specification with TLC, return (ok, rejected list, tlc result)."""
    path = scratch.path("%s.ndjson" % tag)
    with open(path, "w") as f:
        for ln in lines:
            f.write(json.dumps(ln) + "\n")
    cfg = "SPECIFICATION Spec\n" + cfg_extra + "POSTCONDITION TraceAccepted\nCHECK_DEADLOCK FALSE\n"
    t = run_tlc(scratch, module, cfg, tag, workers=1, timeout=timeout, env={"TRACE": path}, heap=heap)
    text = open(t["out"], errors="replace").read()
    rej = [(int(m.group(1)), m.group(2), [x.strip().strip('"') for x in m.group(3).split('",')])
           for m in re.finditer(r'<<\s*"REJ",\s*(\d+),\s*"([^"]*)",\s*\{(.*?)\}\s*>>', text, re.S)]
    done = '"TRACE-DONE"' in text
    ok = t["status"] == "ok" and done
    return ok, rej, t
