----------------------------- MODULE MCRecovery -----------------------------
(* Design check of build_pl + error_recovery (Recovery.tla): grammars with `error' in several shapes, every input over
   three terminals up to a length bound, recovery_match 1..3. *)
EXTENDS Recovery

CONSTANT MaxLen

RR(l, r) == [l |-> l, r |-> r, an |-> 0, c |-> 0, t |-> <<>>]
T3 == <<[n |-> 1, c |-> 1], [n |-> 2, c |-> 2], [n |-> 3, c |-> 3]>>
CuratedR == <<
  \* statement list with error statements:  P : L ; L : L s | s ; s : 1 2 | 0 2 | 3 s
  [terms |-> T3, rules |-> <<RR(11, <<11, 12>>), RR(11, <<12>>), RR(12, <<1, 2>>), RR(12, <<0, 2>>), RR(12, <<3, 12>>)>>],
  \* nested brackets with error inside:  S : 1 S 2 | 3 | 0
  [terms |-> T3, rules |-> <<RR(11, <<1, 11, 2>>), RR(11, <<3>>), RR(11, <<0>>)>>],
  \* no error in the rules at all (only the implicit rule):  S : S 1 | 2 3
  [terms |-> T3, rules |-> <<RR(11, <<11, 1>>), RR(11, <<2, 3>>)>>],
  \* error at the start of the start rule, then a list:  P : 0 L | L ; L : L 1 2 | 3
  [terms |-> T3, rules |-> <<RR(11, <<0, 12>>), RR(11, <<12>>), RR(12, <<12, 1, 2>>), RR(12, <<3>>)>>],
  \* error in the middle and at the end:  S : 1 0 2 S | 3 | 1 0
  [terms |-> T3, rules |-> <<RR(11, <<1, 0, 2, 11>>), RR(11, <<3>>), RR(11, <<1, 0>>)>>],
  \* error followed by a nullable nonterminal:  S : E 2 S | 1 ; E : 0 N | 3 ; N : | 3
  [terms |-> T3, rules |-> <<RR(11, <<12, 2, 11>>), RR(11, <<1>>), RR(12, <<0, 13>>), RR(12, <<3>>), RR(13, <<>>), RR(13, <<3>>)>>],
  \* two nesting levels each with its own error rule:  P : B ; B : 1 L 2 | 0 ; L : L s | s ; s : 3 | 0 3 | B
  [terms |-> T3, rules |-> <<RR(11, <<12>>), RR(12, <<1, 13, 2>>), RR(12, <<0>>), RR(13, <<13, 14>>), RR(13, <<14>>), RR(14, <<3>>), RR(14, <<0, 3>>), RR(14, <<12>>)>>]
>>

RECURSIVE SeqsUpTo(_, _)
SeqsUpTo(T, n) == IF n = 0 THEN {<<>>} ELSE LET S == SeqsUpTo(T, n - 1) IN S \cup {Append(w, t) : w \in {w \in S : Len(w) = n - 1}, t \in T}
AllInputs == SeqsUpTo({1, 2, 3}, MaxLen)

(* the oracle evaluated with Earley sets agrees with the declarative one of Repair (Viable/IsSentence), which the
   families of C08 use: checked when a recovery starts *)
OraclesAgree ==
  mode = "rec" /\ npops = 0 /\ reps = <<>> =>
    LET G == Gram(GrammarsR[gi]) A == AR(gi) N == Nullable(A)
        W == SubSeq(inp, 1, Len(inp) - 1)
    IN MinOfS(SimpleCostsE(A, N, inp, orig, tok0, m)) = MinSimpleRecoveryCost(G, W, tok0, Matches(m))
=============================================================================
