------------------------------- MODULE Descr -------------------------------
(***************************************************************************)
(* The documented YACC-like description syntax of yaep_parse_grammar       *)
(* (C11), at the level of characters.                                      *)
(*                                                                         *)
(*  - Lex: the lexical structure (blanks, comments, identifiers, numbers,  *)
(*    character constants, punctuation, the keyword TERM, and the          *)
(*    "identifier followed by a colon" token that starts a rule);          *)
(*  - DescrG: the grammar of the manual over token kinds, as a CFG of the  *)
(*    module CFG, so that Deriv!IsSentence decides whether a text follows  *)
(*    the documented syntax;                                               *)
(*  - Print: the texts a raw definition may be written as, in several      *)
(*    lexical styles (0-5), together with the raw definition each text denotes   *)
(*    (terminal codes: explicit, character code, or free codes 256, 257,   *)
(*    ... in order of appearance).                                         *)
(* A text is a sequence of character codes.                                *)
(***************************************************************************)
EXTENDS Deriv, SequencesExt

(* ---------- characters ---------- *)
SP == 32  NL == 10  TAB == 9
IsBlank(c) == c \in {SP, NL, TAB}
IsDigit(c) == c >= 48 /\ c <= 57
IsAlpha(c) == (c >= 65 /\ c <= 90) \/ (c >= 97 /\ c <= 122) \/ c = 95
IsAlnum(c) == IsAlpha(c) \/ IsDigit(c)
Punct == {61, 35, 124, 59, 45, 40, 41}      \* = # | ; - ( )
KW_TERM == <<84, 69, 82, 77>>

(* ---------- token kinds ---------- *)
K_TERM == 1  K_IDENT == 2  K_SEMIDENT == 3  K_CHAR == 4  K_NUMBER == 5
K_EQ == 6  K_HASH == 7  K_BAR == 8  K_SEMI == 9  K_MINUS == 10  K_LP == 11  K_RP == 12
PunctKind(c) == CASE c = 61 -> K_EQ [] c = 35 -> K_HASH [] c = 124 -> K_BAR [] c = 59 -> K_SEMI
                  [] c = 45 -> K_MINUS [] c = 40 -> K_LP [] OTHER -> K_RP

(* end (exclusive) of the maximal run of digits / identifier characters / blanks starting at i *)
RECURSIVE DigitsEnd(_, _)
DigitsEnd(t, i) == IF i <= Len(t) /\ IsDigit(t[i]) THEN DigitsEnd(t, i + 1) ELSE i
RECURSIVE AlnumEnd(_, _)
AlnumEnd(t, i) == IF i <= Len(t) /\ IsAlnum(t[i]) THEN AlnumEnd(t, i + 1) ELSE i
RECURSIVE BlankEnd(_, _)
BlankEnd(t, i) == IF i <= Len(t) /\ IsBlank(t[i]) THEN BlankEnd(t, i + 1) ELSE i

(* position after the comment that starts at i (t[i..i+1] = slash star), 0 if unterminated *)
RECURSIVE CommentEnd(_, _)
CommentEnd(t, i) == IF i + 1 > Len(t) THEN 0
                    ELSE IF t[i] = 42 /\ t[i + 1] = 47 THEN i + 2 ELSE CommentEnd(t, i + 1)

(* Lex(t, i, acc): sequence of token kinds, or <<0>> appended on a lexical error. *)
RECURSIVE LexFrom(_, _, _)
LexFrom(t, i, acc) ==
  IF i > Len(t) THEN acc
  ELSE LET c == t[i] IN
       IF IsBlank(c) THEN LexFrom(t, i + 1, acc)
       ELSE IF c = 47 THEN
            IF i + 1 <= Len(t) /\ t[i + 1] = 42
            THEN LET e == CommentEnd(t, i + 2) IN IF e = 0 THEN Append(acc, 0) ELSE LexFrom(t, e, acc)
            ELSE Append(acc, 0)
       ELSE IF c \in Punct THEN LexFrom(t, i + 1, Append(acc, PunctKind(c)))
       ELSE IF c = 39 THEN
            IF i + 2 <= Len(t) /\ t[i + 2] = 39 THEN LexFrom(t, i + 3, Append(acc, K_CHAR)) ELSE Append(acc, 0)
       ELSE IF IsDigit(c) THEN LexFrom(t, DigitsEnd(t, i), Append(acc, K_NUMBER))
       ELSE IF IsAlpha(c) THEN
            LET e == AlnumEnd(t, i)
                word == SubSeq(t, i, e - 1)
            IN IF word = KW_TERM THEN LexFrom(t, e, Append(acc, K_TERM))
               ELSE LET f == BlankEnd(t, e) IN
                    IF f <= Len(t) /\ t[f] = 58 THEN LexFrom(t, f + 1, Append(acc, K_SEMIDENT))
                    ELSE LexFrom(t, e, Append(acc, K_IDENT))
       ELSE Append(acc, 0)

Lex(t) == LexFrom(t, 1, <<>>)
LexOK(t) == 0 \notin Range(Lex(t))

(* ---------- the manual's grammar over token kinds ---------- *)
DR(l, r) == [l |-> l, r |-> r, an |-> 0, c |-> 0, t |-> <<>>]
NFile == 21  NOptSem == 22  NTerms == 23  NOptNum == 24  NRule == 25  NRhs == 26  NSeq == 27  NOptTr == 28
NOptCost == 29  NNumbers == 30
DescrRules(parens_optional) ==
  << DR(NFile, <<NFile, NTerms, NOptSem>>), DR(NFile, <<NFile, NRule>>), DR(NFile, <<NTerms, NOptSem>>), DR(NFile, <<NRule>>),
     DR(NOptSem, <<>>), DR(NOptSem, <<K_SEMI>>),
     DR(NTerms, <<NTerms, K_IDENT, NOptNum>>), DR(NTerms, <<K_TERM>>),
     DR(NOptNum, <<>>), DR(NOptNum, <<K_EQ, K_NUMBER>>),
     DR(NRule, <<K_SEMIDENT, NRhs, NOptSem>>),
     DR(NRhs, <<NRhs, K_BAR, NSeq, NOptTr>>), DR(NRhs, <<NSeq, NOptTr>>),
     DR(NSeq, <<>>), DR(NSeq, <<NSeq, K_IDENT>>), DR(NSeq, <<NSeq, K_CHAR>>),
     DR(NOptTr, <<>>), DR(NOptTr, <<K_HASH>>), DR(NOptTr, <<K_HASH, K_NUMBER>>), DR(NOptTr, <<K_HASH, K_MINUS>>),
     DR(NOptTr, <<K_HASH, K_IDENT, NOptCost, K_LP, NNumbers, K_RP>>),
     DR(NOptCost, <<>>), DR(NOptCost, <<K_NUMBER>>),
     DR(NNumbers, <<>>), DR(NNumbers, <<NNumbers, K_NUMBER>>), DR(NNumbers, <<NNumbers, K_MINUS>>) >>
  \o (IF parens_optional THEN <<DR(NOptTr, <<K_HASH, K_IDENT, NOptCost>>)>> ELSE <<>>)

DescrG == [T |-> 0..12, rules |-> DescrRules(FALSE)]
(* the implementation also accepts an abstract node without the parenthesised list (recorded deviation) *)
DescrGExt == [T |-> 0..12, rules |-> DescrRules(TRUE)]

SyntaxOK(t) == LexOK(t) /\ IsSentence(DescrG, Lex(t))
SyntaxOKExt(t) == LexOK(t) /\ IsSentence(DescrGExt, Lex(t))

Lines(t) == 1 + Cardinality({i \in DOMAIN t : t[i] = NL})

(* ---------- printer ---------- *)
RECURSIVE Digits(_)
Digits(n) == IF n < 10 THEN <<48 + n>> ELSE Digits(n \div 10) \o <<48 + (n % 10)>>

(* identifier of a symbol name: terminals t<k>, nonterminals N<k>, error *)
Ident(s) == IF s = ErrName THEN <<101, 114, 114, 111, 114>>
            ELSE IF s < 10 THEN <<116>> \o Digits(s) ELSE <<78>> \o Digits(s)
CharConst(s) == <<39, 96 + s, 39>>            \* terminal k written as the character constant 'a', 'b', ...
CharConstHi(s) == <<39, 200 + s, 39>>        \* ... and as a character constant whose character is a byte above 127 (code 200 + k)

RECURSIVE Join(_, _)
Join(parts, sep) == IF Len(parts) = 0 THEN <<>>
                    ELSE IF Len(parts) = 1 THEN parts[1] ELSE parts[1] \o sep \o Join(Tail(parts), sep)

Sep(style) == IF style = 3 THEN <<TAB, 47, 42, 32, 120, 10, 42, 47, NL>> ELSE <<SP>>   \* style 3: tab, a two-line comment, newline

TransText(rl, style) ==
  LET sp == Sep(style) IN
  IF rl.an # 0
  THEN <<35>> \o sp \o <<97>> \o Digits(rl.an)
       \o (IF rl.c = 1 /\ style \in {1, 3} THEN <<>> ELSE sp \o Digits(rl.c))           \* default cost 1 may be omitted
       \o sp \o <<40>> \o Join([q \in 1..Len(rl.t) |-> IF rl.t[q] = 0 THEN <<45>> ELSE Digits(rl.t[q] - 1)], sp) \o <<41>>
  ELSE IF Len(rl.t) = 0 THEN (IF style = 2 THEN <<35>> ELSE <<>>)
  ELSE IF rl.t[1] = 0 THEN <<35>> \o sp \o <<45>> ELSE <<35>> \o sp \o Digits(rl.t[1] - 1)

SymText(s, style) == IF style = 1 /\ s > 0 /\ s < 10 THEN CharConst(s)
                     ELSE IF style = 8 /\ s > 0 /\ s < 10 THEN CharConstHi(s) ELSE Ident(s)

(* In styles 1 and 3 consecutive rules with the same left-hand side are written as alternatives `|'
   of one rule; first = the rule starts a group, last = it ends one. *)
RuleText(rl, style, first, last) ==
  LET sp == Sep(style) IN
  (IF first THEN Ident(rl.l) \o (IF style = 3 THEN <<SP, NL>> ELSE <<SP>>) \o <<58>> \o sp
   ELSE <<SP, SP, 124>> \o sp)
  \o Join([q \in 1..Len(rl.r) |-> SymText(rl.r[q], style)], sp)
  \o sp \o TransText(rl, style)
  \o (IF last THEN (IF style = 3 THEN <<NL>> ELSE <<SP, 59, NL>>) ELSE <<NL>>)

Grouped(style) == style \in {1, 3}
StartsGroup(rules, k, style) == ~Grouped(style) \/ k = 1 \/ rules[k - 1].l # rules[k].l
EndsGroup(rules, k, style) == ~Grouped(style) \/ k = Len(rules) \/ rules[k + 1].l # rules[k].l

(* terminal declaration section by style; terms is the sequence of declared terminal names *)
TermsText(terms, style) ==
  LET sp == Sep(style) IN
  CASE style = 0 -> KW_TERM \o sp \o Join([i \in 1..Len(terms) |-> Ident(terms[i]) \o <<61>> \o Digits(96 + terms[i])], sp) \o <<59, NL>>
    [] style \in {1, 8} -> <<>>
    [] style = 2 -> KW_TERM \o sp \o Join([i \in 1..Len(terms) |-> Ident(terms[i])], sp) \o <<NL>>
    [] style = 3 -> KW_TERM \o sp \o Join([i \in 1..Len(terms) |-> Ident(terms[i]) \o sp \o <<61>> \o sp \o Digits(96 + terms[i])], sp) \o <<59>> \o sp
                    \o KW_TERM \o sp \o Join([i \in 1..Len(terms) |-> Ident(terms[i]) \o <<61>> \o Digits(96 + terms[i])], sp) \o <<NL>>   \* declared twice, same codes
    [] style = 5 -> \* free codes; every terminal declared again without a code, in reverse order ("you can declare terminal several times")
                    KW_TERM \o sp \o Join([i \in 1..Len(terms) |-> Ident(terms[i])], sp) \o <<59, NL>>
                    \o KW_TERM \o sp \o Join([i \in 1..Len(terms) |-> Ident(terms[Len(terms) + 1 - i])], sp) \o <<59, NL>>
    [] style = 6 -> \* explicit codes; every terminal declared again WITHOUT a code, in reverse order: the code stays the declared one
                    KW_TERM \o sp \o Join([i \in 1..Len(terms) |-> Ident(terms[i]) \o <<61>> \o Digits(96 + terms[i])], sp) \o <<59, NL>>
                    \o KW_TERM \o sp \o Join([i \in 1..Len(terms) |-> Ident(terms[Len(terms) + 1 - i])], sp) \o <<59, NL>>
    [] style = 7 -> \* the other way round: first without codes, then again with the explicit codes
                    KW_TERM \o sp \o Join([i \in 1..Len(terms) |-> Ident(terms[i])], sp) \o <<59, NL>>
                    \o KW_TERM \o sp \o Join([i \in 1..Len(terms) |-> Ident(terms[Len(terms) + 1 - i]) \o <<61>> \o Digits(96 + terms[Len(terms) + 1 - i])], sp) \o <<59, NL>>
    [] OTHER -> KW_TERM \o sp \o Join([i \in 1..Len(terms) |-> Ident(terms[i]) \o <<61>> \o Digits(96 + terms[i])], sp) \o <<59, NL>>

(* the text of a definition in a style; style 4 puts the declarations after the rules *)
PrintDescr(terms, rules, style) ==
  LET body == Join([k \in 1..Len(rules) |-> RuleText(rules[k], style, StartsGroup(rules, k, style), EndsGroup(rules, k, style))], <<>>) IN
  IF style = 4 THEN body \o TermsText(terms, style) ELSE TermsText(terms, style) \o body

(* the terminal declarations the text denotes: name and code *)
DenotedTerms(terms, rules, style) ==
  IF style \in {2, 5} THEN [i \in 1..Len(terms) |-> [n |-> terms[i], c |-> 255 + i]]      \* free codes from 256 in order of (first) appearance
  ELSE IF style = 8
  THEN LET used == {s \in UNION {Range(rules[k].r) : k \in DOMAIN rules} : s > 0 /\ s < 10}
       IN SetToSeq({[n |-> s, c |-> 200 + s] : s \in used})            \* "its code is always code of the character constant"
  ELSE IF style = 1
  THEN \* only the terminals that occur in rules exist (as character constants)
       LET used == {s \in UNION {Range(rules[k].r) : k \in DOMAIN rules} : s > 0 /\ s < 10}
       IN SetToSeq({[n |-> s, c |-> 96 + s] : s \in used})
  ELSE [i \in 1..Len(terms) |-> [n |-> terms[i], c |-> 96 + terms[i]]]

=============================================================================
