------------------------------ MODULE Deriv ------------------------------
(***************************************************************************)
(* Context-free derivation, declaratively: which spans of an input each    *)
(* nonterminal derives (least fixed point), sentences, viable prefixes,    *)
(* the first offending token, and the number of derivation trees (capped). *)
(* This is the oracle for C01, C05, C06; it does not mention Earley items. *)
(*                                                                         *)
(* W is a sequence of terminal names, positions are 0..Len(W); a span      *)
(* <<X,i,j>> means X =>* W[i+1..j].                                         *)
(***************************************************************************)
EXTENDS CFG

(* End positions j such that alpha[k..] =>* W[i+1..j], given the spans Sp. *)
RECURSIVE MatchFrom(_, _, _, _, _, _)
MatchFrom(G, W, Sp, alpha, k, i) ==
  IF k > Len(alpha) THEN {i}
  ELSE LET s == alpha[k] IN
       IF IsT(G, s)
       THEN IF i < Len(W) /\ W[i + 1] = s THEN MatchFrom(G, W, Sp, alpha, k + 1, i + 1) ELSE {}
       ELSE UNION {MatchFrom(G, W, Sp, alpha, k + 1, m) : m \in {m \in i..Len(W) : <<s, i, m>> \in Sp}}

SpanStep(G, W, Sp) ==
  Sp \cup UNION {UNION {{<<G.rules[r].l, i, j>> : j \in MatchFrom(G, W, Sp, G.rules[r].r, 1, i)}
                        : i \in 0..Len(W)}
                 : r \in DOMAIN G.rules}

RECURSIVE SpanLfp(_, _, _)
SpanLfp(G, W, Sp) == LET S2 == SpanStep(G, W, Sp) IN IF S2 = Sp THEN Sp ELSE SpanLfp(G, W, S2)

Spans(G, W) == SpanLfp(G, W, {})

IsSentence(G, W) == <<Start(G), 0, Len(W)>> \in Spans(G, W)

(* ------------------------------------------------------------------ *)
(* Viable prefixes.  PS is the set of <<X,i>> such that X derives some   *)
(* terminal string that starts with W[i+1..k] (k fixed).                 *)
(* ------------------------------------------------------------------ *)
AllProductive(P, alpha, k) == \A q \in k..Len(alpha) : alpha[q] \in P

(* alpha[p..] derives a terminal string starting with W[i+1..k]. *)
RECURSIVE PrefixFrom(_, _, _, _, _, _, _, _, _)
PrefixFrom(G, W, k, Sp, P, PS, alpha, p, i) ==
  IF i = k THEN AllProductive(P, alpha, p)
  ELSE IF p > Len(alpha) THEN FALSE
  ELSE LET s == alpha[p] IN
       IF IsT(G, s)
       THEN W[i + 1] = s /\ PrefixFrom(G, W, k, Sp, P, PS, alpha, p + 1, i + 1)
       ELSE \/ <<s, i>> \in PS /\ AllProductive(P, alpha, p + 1)
            \/ \E m \in i..k : <<s, i, m>> \in Sp /\ PrefixFrom(G, W, k, Sp, P, PS, alpha, p + 1, m)

RECURSIVE PrefixLfp(_, _, _, _, _, _)
PrefixLfp(G, W, k, Sp, P, PS) ==
  LET PS2 == PS \cup {x \in (NT(G) \X (0..k)) :
                        \E r \in RulesOf(G, x[1]) : PrefixFrom(G, W, k, Sp, P, PS, G.rules[r].r, 1, x[2])}
  IN IF PS2 = PS THEN PS ELSE PrefixLfp(G, W, k, Sp, P, PS2)

(* W[1..k] is a prefix of some sentence. *)
ViableSp(G, W, k, Sp) == <<Start(G), 0>> \in PrefixLfp(G, W, k, Sp, Productive(G), {})
Viable(G, W, k) == ViableSp(G, W, k, Spans(G, W))

(* 0-based number of the first token such that no sentence starts with the
   tokens up to and including it; Len(W) stands for "end of input"; -1 if W is
   a sentence. *)
FirstOffending(G, W) ==
  LET Sp == Spans(G, W) IN
  IF <<Start(G), 0, Len(W)>> \in Sp THEN -1
  ELSE LET bad == {k \in 1..Len(W) : ~ViableSp(G, W, k, Sp)}
       IN IF bad = {} THEN Len(W) ELSE Min(bad) - 1

(* ------------------------------------------------------------------ *)
(* Number of derivation trees of W from the start symbol, capped at 2.   *)
(* ------------------------------------------------------------------ *)
Cap2(n) == IF n > 2 THEN 2 ELSE n

RECURSIVE SumCap(_, _)
SumCap(f, S) == IF S = {} THEN 0
                ELSE LET x == CHOOSE x \in S : TRUE IN Cap2(f[x] + SumCap(f, S \ {x}))

RECURSIVE CountFrom(_, _, _, _, _, _, _)
CountFrom(G, W, C, alpha, k, i, j) ==
  IF k > Len(alpha) THEN (IF i = j THEN 1 ELSE 0)
  ELSE LET s == alpha[k] IN
       IF IsT(G, s)
       THEN IF i < j /\ W[i + 1] = s THEN CountFrom(G, W, C, alpha, k + 1, i + 1, j) ELSE 0
       ELSE LET f == [m \in i..j |-> IF C[<<s, i, m>>] = 0 THEN 0
                                      ELSE Cap2(C[<<s, i, m>>] * CountFrom(G, W, C, alpha, k + 1, m, j))]
            IN SumCap(f, i..j)

SpanDom(G, W) == {x \in NT(G) \X (0..Len(W)) \X (0..Len(W)) : x[2] <= x[3]}

RECURSIVE CountLfp(_, _, _)
CountLfp(G, W, C) ==
  LET C2 == [x \in DOMAIN C |->
               LET f == [r \in RulesOf(G, x[1]) |-> CountFrom(G, W, C, G.rules[r].r, 1, x[2], x[3])]
               IN SumCap(f, RulesOf(G, x[1]))]
  IN IF C2 = C THEN C ELSE CountLfp(G, W, C2)

NDerivCapped(G, W) == CountLfp(G, W, [x \in SpanDom(G, W) |-> 0])[<<Start(G), 0, Len(W)>>]

(* ------------------------------------------------------------------ *)
(* The same count with an arbitrary cap K, computed over the derivable   *)
(* spans only (so that inputs of a dozen tokens are affordable).         *)
(* ------------------------------------------------------------------ *)
CapK(K, n) == IF n > K THEN K ELSE n

RECURSIVE SumCapK(_, _, _)
SumCapK(K, f, S) == IF S = {} THEN 0
                    ELSE LET x == CHOOSE x \in S : TRUE IN CapK(K, f[x] + SumCapK(K, f, S \ {x}))

RECURSIVE CountFromK(_, _, _, _, _, _, _, _, _)
CountFromK(G, W, Sp, C, K, alpha, k, i, j) ==
  IF k > Len(alpha) THEN (IF i = j THEN 1 ELSE 0)
  ELSE LET s == alpha[k] IN
       IF IsT(G, s)
       THEN IF i < j /\ W[i + 1] = s THEN CountFromK(G, W, Sp, C, K, alpha, k + 1, i + 1, j) ELSE 0
       ELSE LET M == {m \in i..j : <<s, i, m>> \in Sp /\ C[<<s, i, m>>] # 0}
                f == [m \in M |-> CapK(K, C[<<s, i, m>>] * CountFromK(G, W, Sp, C, K, alpha, k + 1, m, j))]
            IN SumCapK(K, f, M)

RECURSIVE CountLfpK(_, _, _, _, _)
CountLfpK(G, W, Sp, C, K) ==
  LET C2 == [x \in DOMAIN C |->
               LET f == [r \in RulesOf(G, x[1]) |-> CountFromK(G, W, Sp, C, K, G.rules[r].r, 1, x[2], x[3])]
               IN SumCapK(K, f, RulesOf(G, x[1]))]
  IN IF C2 = C THEN C ELSE CountLfpK(G, W, Sp, C2, K)

NDerivCappedAt(G, W, K) ==
  LET Sp == Spans(G, W) IN
  IF <<Start(G), 0, Len(W)>> \notin Sp THEN 0
  ELSE CountLfpK(G, W, Sp, [x \in Sp |-> 0], K)[<<Start(G), 0, Len(W)>>]

=============================================================================
