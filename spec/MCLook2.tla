------------------------------- MODULE MCLook2 ------------------------------
(* Design check of dynamic lookahead pruning (Look2.tla) on the grammars of MCCache plus a few whose FOLLOW sets
   matter (the same nonterminal in contexts with different followers, nullable tails, error rules). *)
EXTENDS Look2

RR(l, r) == [l |-> l, r |-> r, an |-> 0, c |-> 0, t |-> <<>>]
T3 == <<[n |-> 1, c |-> 1], [n |-> 2, c |-> 2], [n |-> 3, c |-> 3]>>
CuratedL == <<
  [terms |-> T3, rules |-> <<RR(11, <<12>>), RR(11, <<12, 11>>), RR(12, <<2, 13, 3>>), RR(12, <<3, 13, 2>>), RR(13, <<1, 1>>)>>],
  [terms |-> T3, rules |-> <<RR(11, <<11, 2, 12>>), RR(11, <<12>>), RR(12, <<12, 3, 13>>), RR(12, <<13>>), RR(13, <<1>>)>>],
  [terms |-> T3, rules |-> <<RR(11, <<12, 13, 14>>), RR(12, <<1>>), RR(12, <<>>), RR(13, <<2>>), RR(13, <<>>), RR(14, <<3>>), RR(14, <<>>)>>],
  [terms |-> T3, rules |-> <<RR(11, <<11, 11>>), RR(11, <<1>>), RR(11, <<2>>)>>],
  [terms |-> T3, rules |-> <<RR(11, <<11, 12>>), RR(11, <<12>>), RR(12, <<1, 2>>), RR(12, <<0, 2>>), RR(12, <<3, 12>>)>>],
  [terms |-> T3, rules |-> <<RR(11, <<1, 11, 2>>), RR(11, <<3>>), RR(11, <<0>>)>>],
  [terms |-> T3, rules |-> <<RR(11, <<12, 11, 2>>), RR(11, <<1>>), RR(12, <<>>), RR(12, <<3>>)>>],
  \* the same nonterminal followed by different terminals in different contexts:  S : A 1 | 2 A 3 ; A : 1 | 1 A
  [terms |-> T3, rules |-> <<RR(11, <<12, 1>>), RR(11, <<2, 12, 3>>), RR(12, <<1>>), RR(12, <<1, 12>>)>>],
  \* unit chain with follow propagation:  S : A 2 | B 3 ; A : B ; B : C ; C : 1
  [terms |-> T3, rules |-> <<RR(11, <<12, 2>>), RR(11, <<13, 3>>), RR(12, <<13>>), RR(13, <<14>>), RR(14, <<1>>)>>],
  \* nullable tail before a follower:  S : 1 A B 2 ; A : 3 | ; B : 3 |
  [terms |-> T3, rules |-> <<RR(11, <<1, 12, 13, 2>>), RR(12, <<3>>), RR(12, <<>>), RR(13, <<3>>), RR(13, <<>>)>>]
>>
=============================================================================
