------------------------------- MODULE MCDef -------------------------------
(***************************************************************************)
(* Model: raw definitions with defects that can be seen without analysing  *)
(* derivations - terminal declarations with negative, repeated or reserved *)
(* names and codes, the reserved names `$S', `$eof' and `error' used as    *)
(* ordinary symbols at any place of any rule (left-hand side or right-hand *)
(* side, first rule or later), a terminal as left-hand side, translations  *)
(* that are malformed (two symbols without abstract node, index out of     *)
(* range, index repeated, negative cost), no rules at all.  A state is a   *)
(* definition built declaration by declaration, then rule by rule; TLC     *)
(* evaluates CFG!Defects for it (strict and not) and prints the vector the *)
(* replay executes: rc = 0 iff no defect, else rc is a defect present.     *)
(***************************************************************************)
EXTENDS Repair, Json, SequencesExt

CONSTANTS TermNamesM,   \* names offered for declarations (may contain 0 = error, -1 = $eof, -2 = $S)
          TermCodesM,   \* codes offered (may contain negative ones; substituted in the cfg)
          MaxTerms,     \* declarations are built up to this number; 0: FixedTerms only
          LhsM, RhsM,   \* symbols offered as left-hand sides / in right-hand sides
          MaxRhs, MaxRules,
          VariantsM     \* translation variants: 0 none, 4 abstract node in order; 10 two symbols without abstract node,
                        \* 11 negative cost, 12 index out of range, 13 index repeated

VARIABLES terms, rules, phase

FixedTerms == <<[n |-> 1, c |-> 1], [n |-> 2, c |-> 2]>>
(* value sets for configuration files (which cannot hold negative literals) *)
NamesAll == {1, 2, 0, -1, -2}
NamesPlain == {1, 2}
CodesAll == {-1, 1, 2}
CodesPlain == {1, 2}
LhsAll == {11, 12, 1, 0, -1, -2}
LhsPlain == {11}
RhsAll == {1, 11, -1, -2}
RhsPlain == {1, 11}
SeqsUpTo(S, n) == UNION {[1..k -> S] : k \in 0..n}
Iota(n) == [i \in 1..n |-> i]

TrM(r, v) ==
  LET n == Len(r) IN
  CASE v = 0 -> [an |-> 0, c |-> 0, t |-> <<>>]
    [] v = 4 -> [an |-> 1, c |-> 1, t |-> Iota(n)]
    [] v = 10 -> IF n >= 2 THEN [an |-> 0, c |-> 0, t |-> <<1, 2>>] ELSE <<>>
    [] v = 11 -> [an |-> 1, c |-> -1, t |-> Iota(n)]
    [] v = 12 -> [an |-> 1, c |-> 1, t |-> <<n + 1>>]
    [] v = 13 -> IF n >= 1 THEN [an |-> 1, c |-> 1, t |-> <<1, 1>>] ELSE <<>>
    [] OTHER -> <<>>

RuleMenuM ==
  UNION {{[l |-> l, r |-> r, an |-> x.an, c |-> x.c, t |-> x.t] :
            l \in LhsM, x \in {TrM(r, v) : v \in VariantsM} \ {<<>>}}
         : r \in SeqsUpTo(RhsM, MaxRhs)}
DeclMenu == {[n |-> n, c |-> c] : n \in TermNamesM, c \in TermCodesM}

InitM == /\ terms = (IF MaxTerms = 0 THEN FixedTerms ELSE <<>>) /\ rules = <<>>
         /\ phase = (IF MaxTerms = 0 THEN "rules" ELSE "terms")
AddTerm(d) == phase = "terms" /\ Len(terms) < MaxTerms /\ terms' = Append(terms, d) /\ UNCHANGED <<rules, phase>>
EndTerms == phase = "terms" /\ phase' = "rules" /\ UNCHANGED <<terms, rules>>
AddRuleM(rl) == phase = "rules" /\ Len(rules) < MaxRules /\ rules' = Append(rules, rl) /\ UNCHANGED <<terms, phase>>
NextM == (\E d \in DeclMenu : AddTerm(d)) \/ EndTerms \/ (\E rl \in RuleMenuM : AddRuleM(rl))
SpecM == InitM /\ [][NextM]_<<terms, rules, phase>>

InputsM == SeqsUpTo({terms[i].n : i \in DOMAIN terms} \cap 1..9, 1)

VectorM ==
  LET raw == [terms |-> terms, rules |-> rules]
      dn == Defects(raw, FALSE)
      ds == Defects(raw, TRUE)
  IN [terms |-> terms, rules |-> rules, dn |-> SetToSeq(dn), ds |-> SetToSeq(ds),
      cases |-> IF dn = {}
                THEN SetToSeq({[w |-> w, sent |-> IsSentence(Gram(raw), w), fo |-> FirstOffending(Gram(raw), w),
                                nd |-> IF IsSentence(Gram(raw), w) THEN NDerivCapped(Gram(raw), w) ELSE 0,
                                trs |-> <<>>, mins |-> <<>>, rv |-> <<>>] : w \in InputsM})
                ELSE <<>>]

(* printed once per distinct definition (only in the rule phase, so that the declaration prefixes are not repeated) *)
EmitM == phase = "rules" => PrintT(<<"VEC", ToJson(VectorM)>>)
=============================================================================
