---------------------------- MODULE MCMakeParse ----------------------------
(* Design check of the translation walk (MakeParse.tla) against the declarative oracles (Deriv.tla, Trans.tla) on every
   grammar of a small family (the enumerator of MCGram) and every input up to MaxLen. *)
EXTENDS MCGram, MakeParse

WalkDesign ==
  LET raw == Raw(rules) IN
  (Len(rules) >= 1 /\ Defects(raw, FALSE) = {}) =>
    LET G == Gram(raw) IN
    \A w \in Inputs :
      /\ WalkSound(G, w)
      /\ WalkTranslates(G, w)

(* vacuity probes: must be violated *)
NeverForks ==
  LET raw == Raw(rules) IN
  (Len(rules) >= 1 /\ Defects(raw, FALSE) = {}) =>
    LET G == Gram(raw) A == AugE(G) IN
    \A w \in Inputs : LET sets == EarleySets(G, WithEof(w)) IN
       \A st \in Walk(A, sets) : (st[2] >= 1 /\ ValidState(A, sets, st) /\ ~IsT(A, Before(A, st))) => Cardinality(Reductions(A, sets, st)) <= 1
=============================================================================
