------------------------------ MODULE Recovery ------------------------------
(***************************************************************************)
(* build_pl with error_recovery as a state machine (lookahead level 0),    *)
(* in the set representation of RelSets (start situations with relative    *)
(* distances, so a set is built from the list of sets before it).          *)
(*                                                                         *)
(* One action per step of the code:                                        *)
(*   Shift      one iteration of build_pl's loop when the current set has  *)
(*              a transition on the current token;                         *)
(*   StartRec   the token has no transition: error_recovery's prologue     *)
(*              (find the nearest set expecting `error', push the first    *)
(*              recovery state);                                           *)
(*   Pop        one iteration of error_recovery's loop: pop a state, move  *)
(*              the back frontier, push the state that skips one more      *)
(*              token, shift `error', skip tokens that cannot be shifted,  *)
(*              shift up to recovery_match tokens (pushing a secondary     *)
(*              state at every set that expects `error' again), compare    *)
(*              with the best recovery so far;                             *)
(*   Finish     the stack is empty: install the best state, report.        *)
(* Abstracted: how the original sets are saved and restored               *)
(* (original_pl_tail_stack, original_last_pl_el) - the model keeps the    *)
(* original list `orig' and a state's list is orig[0..last] \o tail.       *)
(*                                                                         *)
(* Properties (checked by TLC on MCRecovery for every grammar and input of *)
(* the model's families):                                                  *)
(*   RecFound     a recovery is always found (best_state is never read     *)
(*                uninitialised);                                          *)
(*   MinimalFirst C08 - the first recovery ignores no more tokens than any *)
(*                simple recovery (SimpleCostsE, straight from the         *)
(*                property's wording, evaluated with Earley sets);         *)
(*   ReportsOK    C06 - ranges inside the input, error tokens strictly     *)
(*                increasing, the first error token is the first token     *)
(*                without a transition;                                    *)
(*   EndsAccepted after recoveries the list always ends in an accepting    *)
(*                set (C07: rc 0 with recovery on).                        *)
(***************************************************************************)
EXTENDS RelSets

CONSTANTS GrammarsR,     \* sequence of raw definitions
          InputsR,       \* set of token sequences (without the end marker)
          MatchVals      \* values of recovery_match

VARIABLES gi, inp, m, pl, via, tok, mode,
          orig, ovia, tok0, stk, fr, b2f, best, bestSt, rstart, rstop,
          reps, npops

rvars == <<gi, inp, m, pl, via, tok, mode, orig, ovia, tok0, stk, fr, b2f, best, bestSt, rstart, rstop, reps, npops>>

NoState == [last |-> -1, tail |-> <<>>, tvia |-> <<>>, tok |-> -1, cost |-> -1, back |-> -1]
AR(g) == AugE(Gram(GrammarsR[g]))

Last(s) == s[Len(s)]
HasTrS(A, N, S, t) == Scanned(A, N, S, t) # {}
HasErrS(A, N, S) == HasTrS(A, N, S, ErrName)
MaxOf(S) == CHOOSE x \in S : \A y \in S : y <= x
MinOfS(S) == CHOOSE x \in S : \A y \in S : x <= y

(* find_error_pl_set: nearest index c <= s (0-based) whose set expects `error' (set 0 always does), and the
   number of sets in (c, s] that were not produced by shifting `error' *)
FindErr(A, N, P, s) == MaxOf({c \in 0..s : HasErrS(A, N, P[c + 1])})
BackCost(V, c, s) == Cardinality({i \in (c + 1)..s : V[i + 1] # ErrName})

Matches(mm) == IF mm < 1 THEN 1 ELSE mm

(* ---------------- the oracle of C08, from the property's wording ---------------- *)
(* after the list P, can the tokens from index t on be shifted: `need' more of them, or all that remain *)
RECURSIVE CanShiftN(_, _, _, _, _, _)
CanShiftN(A, N, toks, P, t, need) ==
  IF need = 0 \/ t >= Len(toks) THEN TRUE
  ELSE /\ HasTrS(A, N, Last(P), toks[t + 1])
       /\ CanShiftN(A, N, toks, Append(P, Build(A, N, P, toks[t + 1])), t + 1, need - 1)

(* O: the sets before the error (O[k+1] is the set in which token k cannot be shifted), no `error' shifted so far *)
SimpleCostsE(A, N, toks, O, k, mm) ==
  {x[2] - x[1] : x \in {x \in (0..k) \X (k..(Len(toks) - 1)) :
      /\ HasErrS(A, N, O[x[1] + 1])
      /\ LET P == SubSeq(O, 1, x[1] + 1) IN CanShiftN(A, N, toks, Append(P, Build(A, N, P, ErrName)), x[2], Matches(mm))}}

(* the list built by shifting toks from the start until a token has no transition: <<list, number shifted>> *)
RECURSIVE ShiftAll(_, _, _, _, _)
ShiftAll(A, N, toks, P, t) ==
  IF t >= Len(toks) \/ ~HasTrS(A, N, Last(P), toks[t + 1]) THEN <<P, t>>
  ELSE ShiftAll(A, N, toks, Append(P, Build(A, N, P, toks[t + 1])), t + 1)

(* for trace lines: toks includes the end marker; result: first offending token index (Len(toks) if none) and the
   minimal simple recovery cost for it (-1 if no error) *)
RecOracle(A, N, toks, mm) ==
  LET sa == ShiftAll(A, N, toks, <<StartSet(A)>>, 0) IN
  IF sa[2] >= Len(toks) THEN [err |-> Len(toks), min |-> -1]
  ELSE [err |-> sa[2], min |-> MinOfS(SimpleCostsE(A, N, toks, sa[1], sa[2], mm))]

(* ---------------- the machine ---------------- *)
RInit ==
  /\ gi \in DOMAIN GrammarsR
  /\ inp \in {Append(w, EOF) : w \in InputsR}
  /\ m \in MatchVals
  /\ pl = <<StartSet(AR(gi))>> /\ via = <<-1>> /\ tok = 0 /\ mode = "parse"
  /\ orig = <<>> /\ ovia = <<>> /\ tok0 = -1 /\ stk = <<>> /\ fr = -1 /\ b2f = 0 /\ best = 0
  /\ bestSt = NoState /\ rstart = -1 /\ rstop = -1
  /\ reps = <<>> /\ npops = 0

recUnch == UNCHANGED <<orig, ovia, tok0, stk, fr, b2f, best, bestSt, rstart, rstop>>

Shift ==
  /\ mode = "parse" /\ tok < Len(inp)
  /\ LET A == AR(gi) N == Nullable(A) IN
       /\ HasTrS(A, N, Last(pl), inp[tok + 1])
       /\ pl' = Append(pl, Build(A, N, pl, inp[tok + 1]))
  /\ via' = Append(via, inp[tok + 1])
  /\ tok' = tok + 1
  /\ recUnch /\ UNCHANGED <<gi, inp, m, mode, reps, npops>>

Done ==
  /\ mode = "parse" /\ tok = Len(inp)
  /\ mode' = "done"
  /\ recUnch /\ UNCHANGED <<gi, inp, m, pl, via, tok, reps, npops>>

StartRec ==
  /\ mode = "parse" /\ tok < Len(inp)
  /\ LET A == AR(gi) N == Nullable(A) IN
       /\ ~HasTrS(A, N, Last(pl), inp[tok + 1])
       /\ LET c == FindErr(A, N, pl, Len(pl) - 1)
              bc == BackCost(via, c, Len(pl) - 1)
          IN /\ fr' = c /\ b2f' = bc
             /\ stk' = <<[last |-> c, tail |-> <<>>, tvia |-> <<>>, tok |-> tok, cost |-> bc, back |-> bc]>>
  /\ orig' = pl /\ ovia' = via /\ tok0' = tok
  /\ best' = 2 * Len(inp) /\ bestSt' = NoState /\ rstart' = -1 /\ rstop' = -1
  /\ mode' = "rec"
  /\ UNCHANGED <<gi, inp, m, pl, via, tok, reps, npops>>

(* skip tokens the set E cannot shift: <<token index, cost>> (stops as soon as the cost reaches the best one) *)
RECURSIVE SkipTo(_, _, _, _, _, _, _)
SkipTo(A, N, toks, E, t, c, bst) ==
  IF t < Len(toks) /\ ~HasTrS(A, N, E, toks[t + 1])
  THEN IF c + 1 >= bst THEN <<t + 1, c + 1>> ELSE SkipTo(A, N, toks, E, t + 1, c + 1, bst)
  ELSE <<t, c>>

(* the matching loop after the first found token was shifted; n tokens matched so far *)
RECURSIVE MatchLoop(_, _, _, _, _, _, _, _, _, _)
MatchLoop(A, N, toks, mm, st, c, P, V, t, acc) ==
  (* acc = [n, pushes] *)
  LET n1 == acc.n + 1 IN
  IF n1 >= mm THEN [P |-> P, V |-> V, t |-> t, n |-> n1, pushes |-> acc.pushes]
  ELSE LET t1 == t + 1 IN
       IF t1 >= Len(toks) THEN [P |-> P, V |-> V, t |-> t1, n |-> n1, pushes |-> acc.pushes]
       ELSE LET pu == IF HasErrS(A, N, Last(P))
                      THEN Append(acc.pushes, [last |-> st.last, tail |-> SubSeq(P, st.last + 2, Len(P)), tvia |-> SubSeq(V, st.last + 2, Len(V)),
                                               tok |-> t1, cost |-> c, back |-> st.back])
                      ELSE acc.pushes
            IN IF ~HasTrS(A, N, Last(P), toks[t1 + 1])
               THEN [P |-> P, V |-> V, t |-> t1, n |-> n1, pushes |-> pu]
               ELSE MatchLoop(A, N, toks, mm, st, c, Append(P, Build(A, N, P, toks[t1 + 1])), Append(V, toks[t1 + 1]), t1, [n |-> n1, pushes |-> pu])

Pop ==
  /\ mode = "rec" /\ stk # <<>>
  /\ LET A == AR(gi) N == Nullable(A)
         st == Last(stk)
         rest == SubSeq(stk, 1, Len(stk) - 1)
         P0 == SubSeq(orig, 1, st.last + 1) \o st.tail
         V0 == SubSeq(ovia, 1, st.last + 1) \o st.tvia
         (* advance the back frontier *)
         c == IF fr > 0 THEN FindErr(A, N, orig, fr - 1) ELSE 0
         bmc == IF fr > 0 THEN BackCost(ovia, c, fr - 1) + (IF ovia[fr + 1] # ErrName THEN 1 ELSE 0) ELSE 0
         doAdv == fr > 0 /\ best >= b2f + bmc
         pushA == IF doAdv THEN <<[last |-> c, tail |-> <<>>, tvia |-> <<>>, tok |-> tok0, cost |-> b2f + bmc, back |-> b2f + bmc]>> ELSE <<>>
         (* advance the head frontier *)
         pushH == IF best >= st.cost + 1 /\ st.tok + 1 < Len(inp)
                  THEN <<[st EXCEPT !.tok = st.tok + 1, !.cost = st.cost + 1]>> ELSE <<>>
         (* shift error, skip *)
         E == Build(A, N, P0, ErrName)
         P1 == Append(P0, E)
         V1 == Append(V0, ErrName)
         sk == SkipTo(A, N, inp, E, st.tok, st.cost, best)
         t1 == sk[1]
         c1 == sk[2]
         rejected == c1 >= best \/ t1 >= Len(inp)
     IN /\ fr' = (IF doAdv THEN c ELSE fr)
        /\ b2f' = (IF doAdv THEN b2f + bmc ELSE b2f)
        /\ IF rejected
           THEN /\ stk' = rest \o pushA \o pushH
                /\ UNCHANGED <<best, bestSt, rstart, rstop>>
           ELSE LET ml == MatchLoop(A, N, inp, Matches(m), st, c1, Append(P1, Build(A, N, P1, inp[t1 + 1])), Append(V1, inp[t1 + 1]), t1,
                                    [n |-> 0, pushes |-> <<>>])
                    found == ml.n >= Matches(m) \/ ml.t >= Len(inp)
                IN /\ stk' = rest \o pushA \o pushH \o ml.pushes
                   /\ IF found /\ best > c1
                      THEN /\ best' = c1
                           /\ bestSt' = [last |-> st.last, tail |-> SubSeq(ml.P, st.last + 2, Len(ml.P)), tvia |-> SubSeq(ml.V, st.last + 2, Len(ml.V)),
                                         tok |-> (IF ml.t = Len(inp) THEN ml.t - 1 ELSE ml.t), cost |-> 0, back |-> 0]
                           /\ rstart' = tok0 - st.back
                           /\ rstop' = tok0 - st.back + c1
                      ELSE UNCHANGED <<best, bestSt, rstart, rstop>>
  /\ npops' = npops + 1
  /\ UNCHANGED <<gi, inp, m, pl, via, tok, mode, orig, ovia, tok0, reps>>

Finish ==
  /\ mode = "rec" /\ stk = <<>> /\ bestSt # NoState
  /\ pl' = SubSeq(orig, 1, bestSt.last + 1) \o bestSt.tail
  /\ via' = SubSeq(ovia, 1, bestSt.last + 1) \o bestSt.tvia
  /\ tok' = bestSt.tok + 1
  /\ reps' = Append(reps, [err |-> tok0, start |-> rstart, stop |-> rstop, pcur |-> bestSt.last + Len(bestSt.tail), next |-> bestSt.tok + 1])
  /\ mode' = "parse"
  /\ UNCHANGED <<gi, inp, m, orig, ovia, tok0, stk, fr, b2f, best, bestSt, rstart, rstop, npops>>

RNext == Shift \/ Done \/ StartRec \/ Pop \/ Finish
RSpec == RInit /\ [][RNext]_rvars

(* ---------------- properties ---------------- *)
RecFound == mode = "rec" /\ stk = <<>> => bestSt # NoState

MinimalFirst ==
  mode = "rec" /\ stk = <<>> /\ reps = <<>> =>
    LET A == AR(gi) N == Nullable(A) S == SimpleCostsE(A, N, inp, orig, tok0, m) IN
    /\ S # {}
    /\ rstop - rstart <= MinOfS(S)

ReportsOK ==
  /\ \A i \in DOMAIN reps :
       /\ 0 <= reps[i].start /\ reps[i].start <= reps[i].stop /\ reps[i].stop <= Len(inp) - 1
       /\ 0 <= reps[i].err /\ reps[i].err <= Len(inp) - 1
       /\ reps[i].start <= reps[i].err /\ reps[i].err <= reps[i].stop
       /\ i > 1 => reps[i - 1].err < reps[i].err
  /\ Len(reps) >= 1 =>
       LET A == AR(gi) N == Nullable(A) IN reps[1].err = ShiftAll(A, N, inp, <<StartSet(A)>>, 0)[2]

EndsAccepted ==
  mode = "done" => LET A == AR(gi) IN \E x \in Last(pl) : LhsR(A, x[1]) = AX /\ x[2] = Len(RhsR(A, x[1])) /\ x[3] = Len(pl) - 1

(* the back frontier never passes a state's own origin, the stack only holds states at or after the frontier *)
StackShape ==
  mode = "rec" => /\ \A i \in DOMAIN stk : stk[i].last >= fr /\ stk[i].cost >= stk[i].back /\ stk[i].tok >= tok0
                  /\ fr >= 0 /\ best >= 0

(* vacuity probes, expected to be violated *)
NeverRecovers == reps = <<>>
NeverSecondary == \A i \in DOMAIN stk : stk[i].tail = <<>>
NeverBacks == \A i \in DOMAIN reps : reps[i].start = reps[i].err
=============================================================================
