------------------------------ MODULE RelSets ------------------------------
(***************************************************************************)
(* Earley sets in the representation the implementation hash-conses: a set *)
(* is the set of its START situations <<rule, dot, distance>> with         *)
(* RELATIVE distances; the other situations (predicted ones with distance  *)
(* 0, advances over nullable symbols with the distance of their parent)    *)
(* are a function of it (FullC).  Build is build_new_set without lookahead *)
(* pruning: scan, then complete every start situation whose tail can       *)
(* derive the empty string from the set at its origin.  No variables:      *)
(* used by Cache.tla and Look.tla.                                         *)
(***************************************************************************)
EXTENDS Earley

RhsR(A, r) == A.rules[r + 1].r
LhsR(A, r) == A.rules[r + 1].l

(* all situations of a set: start ones plus predicted (distance 0) and advances over nullable symbols *)
FullStep(A, N, S) ==
  S \cup UNION {LET rhs == RhsR(A, x[1]) IN
                IF x[2] >= Len(rhs) THEN {}
                ELSE LET X == rhs[x[2] + 1] IN
                     IF IsT(A, X) THEN {}
                     ELSE {<<r - 1, 0, 0>> : r \in RulesOf(A, X)} \cup (IF X \in N THEN {<<x[1], x[2] + 1, x[3]>>} ELSE {})
                : x \in S}
RECURSIVE FullC(_, _, _)
FullC(A, N, S) == LET S2 == FullStep(A, N, S) IN IF S2 = S THEN S ELSE FullC(A, N, S2)

TailNull(A, N, x) == \A q \in (x[2] + 1)..Len(RhsR(A, x[1])) : RhsR(A, x[1])[q] \in N

(* build_new_set: shift symbol t from the last set of list p; n = index of the new set *)
CompleteStep(A, N, p, S) ==
  LET n == Len(p) IN
  S \cup UNION {IF TailNull(A, N, x) /\ x[3] >= 1 /\ x[3] <= n
                THEN LET O == FullC(A, N, p[n - x[3] + 1]) IN
                     {<<y[1], y[2] + 1, y[3] + x[3]>> :
                        y \in {y \in O : y[2] < Len(RhsR(A, y[1])) /\ RhsR(A, y[1])[y[2] + 1] = LhsR(A, x[1])}}
                ELSE {}
                : x \in S}
RECURSIVE CompleteC(_, _, _, _)
CompleteC(A, N, p, S) == LET S2 == CompleteStep(A, N, p, S) IN IF S2 = S THEN S ELSE CompleteC(A, N, p, S2)

Scanned(A, N, S, t) ==
  {<<x[1], x[2] + 1, x[3] + 1>> : x \in {x \in FullC(A, N, S) : x[2] < Len(RhsR(A, x[1])) /\ RhsR(A, x[1])[x[2] + 1] = t}}

Build(A, N, p, t) == CompleteC(A, N, p, Scanned(A, N, p[Len(p)], t))

StartSet(A) == {<<r - 1, 0, 0>> : r \in RulesOf(A, AX)}

=============================================================================
