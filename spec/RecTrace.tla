------------------------------ MODULE RecTrace ------------------------------
(***************************************************************************)
(* Trace validation of syntax-error reports recorded from the real library *)
(* against the oracle of Recovery.tla.  Every line of the ndjson file      *)
(* named by TRACE is one yaep_parse call with recovery on: grammar, input, *)
(* recovery_match and the callbacks the caller saw.  TLC builds the Earley *)
(* sets of the input itself (RelSets), so inputs much longer than those of *)
(* the declarative oracle (ParseTrace) can be judged:                      *)
(*   C01  a callback happens iff some token has no transition;             *)
(*   C06  the first reported error token is the first such token;          *)
(*   C08  the first report ignores no more tokens than the cheapest simple *)
(*        recovery (Recovery!SimpleCostsE).                                *)
(* Lines of kind "recog" (any recovery flag) are judged for C01/C06 only:  *)
(* return code, root, callbacks against the first token without a          *)
(* transition - long inputs of random ambiguous grammars.                  *)
(* Lines of kind "mach" carry what the hooks saw of error_recovery's loop  *)
(* (one entry per popped state: last original set, start token, cost, back *)
(* frontier, best cost; one per finished recovery) and are compared with   *)
(* the run of the machine of Recovery.tla on the same input - a difference *)
(* is a DRIFT of the implementation from the machine, reported but not a   *)
(* violation of a listed property.                                         *)
(***************************************************************************)
EXTENDS Recovery, Json, IOUtils

VARIABLES l, nrej

TraceLines == ndJsonDeserialize(IOEnv.TRACE)
GramOfLine(e) == [T |-> Range(e.terms) \cup {ErrName}, rules |-> e.rules]

(* the machine of Recovery.tla as a function: run it on (A, toks, mm) and collect the pops and reports.  The state is a
   record with the machine's variables; RunMachine iterates the same steps as the actions Shift/StartRec/Pop/Finish. *)
RECURSIVE RunParse(_, _, _, _, _)
RECURSIVE RunRec(_, _, _, _, _)

(* st: [pl, via, tok, reps, pops] in parse mode *)
RunParse(A, N, toks, mm, st) ==
  IF st.tok >= Len(toks) THEN st
  ELSE IF HasTrS(A, N, Last(st.pl), toks[st.tok + 1])
  THEN RunParse(A, N, toks, mm, [st EXCEPT !.pl = Append(st.pl, Build(A, N, st.pl, toks[st.tok + 1])), !.via = Append(st.via, toks[st.tok + 1]), !.tok = st.tok + 1])
  ELSE LET c == FindErr(A, N, st.pl, Len(st.pl) - 1)
           bc == BackCost(st.via, c, Len(st.pl) - 1)
           r0 == [orig |-> st.pl, ovia |-> st.via, tok0 |-> st.tok, fr |-> c, b2f |-> bc, best |-> 2 * Len(toks), bestSt |-> NoState,
                  rstart |-> -1, rstop |-> -1, pops |-> st.pops,
                  stk |-> <<[last |-> c, tail |-> <<>>, tvia |-> <<>>, tok |-> st.tok, cost |-> bc, back |-> bc]>>]
           r == RunRec(A, N, toks, mm, r0)
       IN IF r.bestSt = NoState THEN [st EXCEPT !.tok = Len(toks), !.pops = r.pops, !.reps = Append(st.reps, <<st.tok, -1, -1, -1, -1>>)]
          ELSE RunParse(A, N, toks, mm,
                 [pl |-> SubSeq(r.orig, 1, r.bestSt.last + 1) \o r.bestSt.tail,
                  via |-> SubSeq(r.ovia, 1, r.bestSt.last + 1) \o r.bestSt.tvia,
                  tok |-> r.bestSt.tok + 1,
                  reps |-> Append(st.reps, <<st.tok, r.rstart, r.rstop, r.bestSt.last + Len(r.bestSt.tail), r.bestSt.tok + 1>>),
                  pops |-> r.pops])

RunRec(A, N, toks, mm, r) ==
  IF r.stk = <<>> THEN r
  ELSE
    LET st == Last(r.stk)
        rest == SubSeq(r.stk, 1, Len(r.stk) - 1)
        P0 == SubSeq(r.orig, 1, st.last + 1) \o st.tail
        V0 == SubSeq(r.ovia, 1, st.last + 1) \o st.tvia
        pop == <<st.last, st.tok, st.cost, r.fr, r.best>>
        c == IF r.fr > 0 THEN FindErr(A, N, r.orig, r.fr - 1) ELSE 0
        bmc == IF r.fr > 0 THEN BackCost(r.ovia, c, r.fr - 1) + (IF r.ovia[r.fr + 1] # ErrName THEN 1 ELSE 0) ELSE 0
        doAdv == r.fr > 0 /\ r.best >= r.b2f + bmc
        pushA == IF doAdv THEN <<[last |-> c, tail |-> <<>>, tvia |-> <<>>, tok |-> r.tok0, cost |-> r.b2f + bmc, back |-> r.b2f + bmc]>> ELSE <<>>
        pushH == IF r.best >= st.cost + 1 /\ st.tok + 1 < Len(toks) THEN <<[st EXCEPT !.tok = st.tok + 1, !.cost = st.cost + 1]>> ELSE <<>>
        E == Build(A, N, P0, ErrName)
        P1 == Append(P0, E)
        V1 == Append(V0, ErrName)
        sk == SkipTo(A, N, toks, E, st.tok, st.cost, r.best)
        t1 == sk[1]
        c1 == sk[2]
        rejected == c1 >= r.best \/ t1 >= Len(toks)
        r1 == [r EXCEPT !.fr = (IF doAdv THEN c ELSE r.fr), !.b2f = (IF doAdv THEN r.b2f + bmc ELSE r.b2f), !.pops = Append(r.pops, pop)]
    IN IF rejected THEN RunRec(A, N, toks, mm, [r1 EXCEPT !.stk = rest \o pushA \o pushH])
       ELSE LET ml == MatchLoop(A, N, toks, Matches(mm), st, c1, Append(P1, Build(A, N, P1, toks[t1 + 1])), Append(V1, toks[t1 + 1]), t1, [n |-> 0, pushes |-> <<>>])
                found == ml.n >= Matches(mm) \/ ml.t >= Len(toks)
                r2 == [r1 EXCEPT !.stk = rest \o pushA \o pushH \o ml.pushes]
            IN IF found /\ r.best > c1
               THEN RunRec(A, N, toks, mm,
                      [r2 EXCEPT !.best = c1,
                                 !.bestSt = [last |-> st.last, tail |-> SubSeq(ml.P, st.last + 2, Len(ml.P)), tvia |-> SubSeq(ml.V, st.last + 2, Len(ml.V)),
                                             tok |-> (IF ml.t = Len(toks) THEN ml.t - 1 ELSE ml.t), cost |-> 0, back |-> 0],
                                 !.rstart = r.tok0 - st.back, !.rstop = r.tok0 - st.back + c1])
               ELSE RunRec(A, N, toks, mm, r2)

RunMachine(A, N, toks, mm) ==
  RunParse(A, N, toks, mm, [pl |-> <<StartSet(A)>>, via |-> <<-1>>, tok |-> 0, reps |-> <<>>, pops |-> <<>>])

Violations(e) ==
  LET G == GramOfLine(e)
      A == AugE(G)
      N == Nullable(A)
      toks == Append(e.w, EOF)
  IN IF e.kind = "recog"
     THEN LET fe == ShiftAll(A, N, toks, <<StartSet(A)>>, 0)[2] IN
          (IF e.calls = <<>> /\ fe < Len(toks) THEN {"C01: no syntax error reported although a token has no transition"} ELSE {})
          \cup (IF e.calls # <<>> /\ fe >= Len(toks) THEN {"C01: syntax error reported although every token can be shifted"} ELSE {})
          \cup (IF e.calls # <<>> /\ fe < Len(toks) /\ e.calls[1][1] # fe THEN {"C06: first error token is not the first token without a transition"} ELSE {})
          \cup (IF e.rc # 0 THEN {"C01: return code of a parse of declared terminal codes is not 0"} ELSE {})
          \cup (IF e.rec = 0 /\ (e.root = 1) # (fe >= Len(toks)) THEN {"C01: root is not NULL exactly for non-sentences (recovery off)"} ELSE {})
     ELSE IF e.kind = "oracle"
     THEN LET o == RecOracle(A, N, toks, e.match) IN
          (IF e.calls = <<>> /\ o.err < Len(toks) THEN {"C01: no syntax error reported although a token has no transition"} ELSE {})
          \cup (IF e.calls # <<>> /\ o.err >= Len(toks) THEN {"C01: syntax error reported although every token can be shifted"} ELSE {})
          \cup (IF e.calls # <<>> /\ o.err < Len(toks) /\ e.calls[1][1] # o.err THEN {"C06: first error token is not the first token without a transition"} ELSE {})
          \cup (IF e.calls # <<>> /\ o.err < Len(toks) /\ e.calls[1][1] = o.err /\ e.calls[1][3] - e.calls[1][2] > o.min
                THEN {"C08: the first recovery ignores more tokens than the cheapest simple recovery"} ELSE {})
     ELSE LET r == RunMachine(A, N, toks, e.match) IN
          (IF r.pops # e.pops THEN {"DRIFT: popped recovery states differ from the machine of Recovery.tla"} ELSE {})
          \cup (IF r.reps # e.recs THEN {"DRIFT: finished recoveries differ from the machine of Recovery.tla"} ELSE {})

(* the variables of Recovery.tla are not used by the trace specification: one dummy initial state *)
DummyG == <<[terms |-> <<[n |-> 1, c |-> 1]>>, rules |-> <<[l |-> 11, r |-> <<1>>, an |-> 0, c |-> 0, t |-> <<>>]>>]>>
DummyI == {<<>>}

TInit == l = 1 /\ nrej = 0
TStep ==
  /\ l <= Len(TraceLines)
  /\ LET v == Violations(TraceLines[l]) IN
       /\ (v # {} => PrintT(<<"REJ", l, TraceLines[l].id, v>>))
       /\ nrej' = nrej + (IF v = {} THEN 0 ELSE 1)
  /\ l' = l + 1
  /\ UNCHANGED rvars
Spec == RInit /\ TInit /\ [][TStep]_<<l, nrej, rvars>>

TraceAccepted == /\ TLCGet("stats").diameter - 1 = Len(TraceLines)
                 /\ PrintT(<<"TRACE-DONE", Len(TraceLines)>>)
=============================================================================
