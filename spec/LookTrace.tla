----------------------------- MODULE LookTrace -----------------------------
(***************************************************************************)
(* Conformance of the recorded Earley sets at lookahead levels 1 and 2     *)
(* with the pruning machines Look.tla (static: FIRST/FOLLOW) and Look2.tla *)
(* (dynamic: contexts).  A line is one yaep_parse without error recovery   *)
(* before the recorded prefix ends: grammar, tokens, level, and for every  *)
(* placed set its situations <<rule, dot, distance>>.  The machines are    *)
(* run on the same tokens; the recorded set at every position must be the  *)
(* machine's set (all situations: start ones, predicted, advanced over     *)
(* nullable symbols).                                                      *)
(* A difference is DRIFT of the implementation from the machines - pruning *)
(* less or differently is no violation of a listed property (C09 demands   *)
(* equal outcomes, which LaTrace checks) - and is reported as such.        *)
(***************************************************************************)
EXTENDS Look2, Json, IOUtils

VARIABLES l

TraceLines == ndJsonDeserialize(IOEnv.TRACE)
GramOfLine(e) == [T |-> {e.terms[i] : i \in DOMAIN e.terms} \cup {ErrName}, rules |-> e.rules]

(* Look.tla's operators under other names (both modules define AL, NoLook ... for their own state machines) *)
RECURSIVE TailFirstT(_, _, _, _, _)
TailFirstT(A, N, F, alpha, k) ==
  IF k > Len(alpha) THEN {}
  ELSE LET s == alpha[k] IN
       (IF IsT(A, s) THEN {s} ELSE F[s]) \cup (IF s \in N THEN TailFirstT(A, N, F, alpha, k + 1) ELSE {})
LookaheadT(A, N, F, W, x) ==
  TailFirstT(A, N, F, RhsR(A, x[1]), x[2] + 1) \cup (IF TailNull(A, N, x) THEN W[LhsR(A, x[1])] ELSE {})
KeepT(A, N, F, W, x, la) == la = NoLook \/ la \in LookaheadT(A, N, F, W, x) \/ ErrName \in LookaheadT(A, N, F, W, x)
PStepT(A, N, F, W, p, S, la) ==
  LET n == Len(p) IN
  S \cup UNION {IF TailNull(A, N, x) /\ x[3] >= 1 /\ x[3] <= n
                THEN LET O == FullC(A, N, p[n - x[3] + 1]) IN
                     {z \in {<<y[1], y[2] + 1, y[3] + x[3]>> :
                               y \in {y \in O : y[2] < Len(RhsR(A, y[1])) /\ RhsR(A, y[1])[y[2] + 1] = LhsR(A, x[1])}}
                        : KeepT(A, N, F, W, z, la)}
                ELSE {}
                : x \in S}
RECURSIVE PCompleteT(_, _, _, _, _, _, _)
PCompleteT(A, N, F, W, p, S, la) ==
  LET S2 == PStepT(A, N, F, W, p, S, la) IN IF S2 = S THEN S ELSE PCompleteT(A, N, F, W, p, S2, la)
PBuildT(A, N, F, W, p, t, la) ==
  PCompleteT(A, N, F, W, p, {z \in Scanned(A, N, p[Len(p)], t) : KeepT(A, N, F, W, z, la)}, la)

Recorded(e, k) == {<<e.sets[k][i][1], e.sets[k][i][2], e.sets[k][i][3]>> : i \in DOMAIN e.sets[k]}

(* tk: the input followed by EOF; sets[k] is the recorded set after k - 1 tokens *)
RECURSIVE Walk1(_, _, _, _, _, _, _, _)
Walk1(e, A, N, F, W, tk, p, k) ==        \* p: machine list so far (k sets); returns the first differing position or 0
  IF Recorded(e, k) # FullC(A, N, p[k]) THEN k
  ELSE IF k >= Len(e.sets) THEN 0
  ELSE LET nn == IF k + 1 <= Len(tk) THEN tk[k + 1] ELSE NoLook
           nx == PBuildT(A, N, F, W, p, tk[k], IF tk[k] = EOF THEN NoLook ELSE nn)
       IN Walk1(e, A, N, F, W, tk, Append(p, nx), k + 1)

RECURSIVE Walk2(_, _, _, _, _, _, _)
Walk2(e, A, N, F, tk, p, k) ==
  IF Recorded(e, k) # Forget(Full2(A, N, F, p[k])) THEN k
  ELSE IF k >= Len(e.sets) THEN 0
  ELSE LET nn == IF k + 1 <= Len(tk) THEN tk[k + 1] ELSE NoLook
           nx == Build2(A, N, F, p, tk[k], IF tk[k] = EOF THEN NoLook ELSE nn)
       IN Walk2(e, A, N, F, tk, Append(p, nx), k + 1)

Problems(e) ==
  LET A == AugE(GramOfLine(e)) N == Nullable(A) F == First(A)
      tk == Append(e.w, EOF)
      d == IF e.la = 1 THEN Walk1(e, A, N, F, Follow(A), tk, <<StartSet(A)>>, 1)
           ELSE Walk2(e, A, N, F, tk, <<StartSet2(A)>>, 1)
  IN IF d = 0 THEN {} ELSE {"DRIFT: the recorded set differs from the lookahead machine at position " \o ToString(d - 1)}

TInit == l = 1
TStep == /\ l <= Len(TraceLines)
         /\ LET v == Problems(TraceLines[l]) IN (v # {} => PrintT(<<"REJ", l, TraceLines[l].id, v>>))
         /\ l' = l + 1
         /\ UNCHANGED <<gl, full, prun, toks, nextt>>
Spec == Init2 /\ TInit /\ [][TStep]_<<l, gl, full, prun, toks, nextt>>
DummyGL == <<[terms |-> <<[n |-> 1, c |-> 1]>>, rules |-> <<[l |-> 11, r |-> <<1>>, an |-> 0, c |-> 0, t |-> <<>>]>>]>>
TraceAccepted == /\ TLCGet("stats").diameter - 1 = Len(TraceLines)
                 /\ PrintT(<<"TRACE-DONE", Len(TraceLines)>>)
=============================================================================
