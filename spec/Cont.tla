-------------------------------- MODULE Cont --------------------------------
(***************************************************************************)
(* The three container packages (C19): hash table (hashtab), object stack  *)
(* (objstack) and variable-length object (vlobject).  Each machine keeps   *)
(* the ABSTRACT contents the documentation promises and the REPRESENTATION *)
(* the code uses (slot array with EMPTY/DELETED markers, counters, prime    *)
(* growth and double hashing; segments with start/free/boundary; one        *)
(* reallocated buffer with a 3/2 growth rule).  The invariants say that the *)
(* representation always denotes the abstract contents.  TLC prints        *)
(* behaviours with the expected observations after every operation; the    *)
(* harness yv_cont drives the C macros/functions and the C++ classes.      *)
(***************************************************************************)
EXTENDS Integers, Sequences, FiniteSets, TLC, Json, SequencesExt

CONSTANTS Univ,        \* hash table: universe of element ids, e.g. 1..5
          HashOf,      \* hash value of every element (a function Univ -> Nat)
          InitSizes,   \* sizes requested at creation
          Chunks,      \* byte-chunk lengths used by the stack / vlo operations
          MaxOps,
          Which        \* "hash" | "os" | "vlo"


(* ====================================================================== *)
(* Hash table                                                              *)
(* ====================================================================== *)
EMPTY == 0
DELETED == -1

IsPrime(n) == n >= 2 /\ \A i \in 2..n : (i * i > n) \/ ((n % i) # 0)
RECURSIVE NextOddPrime(_)
NextOddPrime(n) == IF IsPrime(n) THEN n ELSE NextOddPrime(n + 2)
(* higher_prime_number: the first prime among (n/2)*2+3, +5, ... *)
HigherPrime(n) == NextOddPrime((n \div 2) * 2 + 3)

(* representation: [slots, nel, ndel] ; size = Len(slots) *)
NewTab(size) == [slots |-> [i \in 1..HigherPrime(size) |-> EMPTY], nel |-> 0, ndel |-> 0]

(* The probe sequence of element e in a table of the given size: slot numbers 0..size-1. *)
Probe(e, size, k) == ((HashOf[e] % size) + k * (1 + (HashOf[e] % (size - 2)))) % size

(* find_hash_table_entry after the optional expansion: returns [slot (1-based), found] by following the
   probe sequence to the element or to the first EMPTY slot; firstdel = first DELETED slot met. *)
RECURSIVE Search(_, _, _, _)
Search(tab, e, k, firstdel) ==
  LET size == Len(tab.slots)
      s == Probe(e, size, k) + 1
      v == tab.slots[s]
  IN IF v = EMPTY THEN [slot |-> s, found |-> FALSE, firstdel |-> firstdel]
     ELSE IF v = e THEN [slot |-> s, found |-> TRUE, firstdel |-> firstdel]
     ELSE IF k >= size THEN [slot |-> 0, found |-> FALSE, firstdel |-> firstdel]     \* no EMPTY slot on the path: the code would loop
     ELSE Search(tab, e, k + 1, IF v = DELETED /\ firstdel = 0 THEN s ELSE firstdel)

(* insertion used by the expansion: reserve + store in the new table *)
PutNew(tab, e) ==
  LET r == Search(tab, e, 0, 0)
      s == IF r.firstdel # 0 THEN r.firstdel ELSE r.slot
  IN [tab EXCEPT !.slots[s] = e, !.nel = tab.nel + 1]

RECURSIVE Rehash(_, _, _)
Rehash(old, new, i) ==
  IF i > Len(old.slots) THEN new
  ELSE LET v == old.slots[i] IN
       Rehash(old, IF v # EMPTY /\ v # DELETED THEN PutNew(new, v) ELSE new, i + 1)

NeedExpand(tab) == Len(tab.slots) \div 4 <= tab.nel \div 3
Expanded(tab) == IF NeedExpand(tab) THEN Rehash(tab, NewTab(tab.nel * 2), 1) ELSE tab

(* abstract contents denoted by a representation *)
AbsTab(tab) == Range(tab.slots) \ {EMPTY, DELETED}

(* what a pure lookup of e answers (after the expansion every call performs) *)
Lookup(tab, e) == Search(Expanded(tab), e, 0, 0).found

VARIABLES tab, contents,            \* hash table: representation and abstract contents
          segs, fin, top,           \* object stack: segment capacities, finished objects, top object
          vcap, vlo,                \* vlo: capacity and bytes
          hist, nextb

hvars == <<tab, contents>>
ovars == <<segs, fin, top>>
vvars == <<vcap, vlo>>

Log(e) == hist' = Append(hist, e)

(* Every step of this machine is "operation; observation": the replay looks all elements up after each
   operation and the first lookup performs the pending expansion, so the state after a step is the
   expanded table (this matters: `empty' keeps the size the table has at that moment). *)
(* what the driver observes after an operation: it looks every element of the universe up (the first
   lookup performs the pending expansion, if any) and then reads size and element count *)
HObs(t, c) == [size |-> Len(Expanded(t).slots), count |-> Expanded(t).nel - Expanded(t).ndel,
               present |-> SetToSeq({e \in Univ : Lookup(t, e)}), abstract |-> SetToSeq(c)]

HCreate(sz) == /\ tab = <<>>
               /\ tab' = Expanded(NewTab(sz)) /\ contents' = {}
               /\ Log([op |-> "hcreate", size |-> sz, obs |-> HObs(NewTab(sz), {})])
               /\ UNCHANGED <<ovars, vvars, nextb>>

HInsert(e) == /\ tab # <<>>
              /\ LET t1 == Expanded(tab)
                     r == Search(t1, e, 0, 0)
                     s == IF r.firstdel # 0 THEN r.firstdel ELSE r.slot
                     t2 == IF r.found THEN t1 ELSE [t1 EXCEPT !.slots[s] = e, !.nel = t1.nel + 1]
                 IN /\ r.slot # 0
                    /\ tab' = Expanded(t2) /\ contents' = contents \cup {e}
                    /\ Log([op |-> "hinsert", e |-> e, was |-> r.found, obs |-> HObs(t2, contents \cup {e})])
              /\ UNCHANGED <<ovars, vvars, nextb>>

HFind(e) == /\ tab # <<>>
            /\ LET t1 == Expanded(tab) IN
                 /\ tab' = t1 /\ UNCHANGED contents
                 /\ Log([op |-> "hfind", e |-> e, was |-> Search(t1, e, 0, 0).found, obs |-> HObs(t1, contents)])
            /\ UNCHANGED <<ovars, vvars, nextb>>

HRemove(e) == /\ tab # <<>> /\ e \in contents        \* precondition of remove_element_from_hash_table_entry
              /\ LET t1 == Expanded(tab)
                     r == Search(t1, e, 0, 0)
                     t2 == [t1 EXCEPT !.slots[r.slot] = DELETED, !.ndel = t1.ndel + 1]
                 IN /\ r.found
                    /\ tab' = Expanded(t2) /\ contents' = contents \ {e}
                    /\ Log([op |-> "hremove", e |-> e, obs |-> HObs(t2, contents \ {e})])
              /\ UNCHANGED <<ovars, vvars, nextb>>

HEmpty == /\ tab # <<>>
          /\ LET t2 == [slots |-> [i \in 1..Len(tab.slots) |-> EMPTY], nel |-> 0, ndel |-> 0] IN
               /\ tab' = Expanded(t2) /\ contents' = {}
               /\ Log([op |-> "hempty", obs |-> HObs(t2, {})])
          /\ UNCHANGED <<ovars, vvars, nextb>>

HashNext == \/ \E sz \in InitSizes : HCreate(sz)
            \/ \E e \in Univ : HInsert(e) \/ HFind(e) \/ HRemove(e)
            \/ HEmpty

(* ---- invariants of the hash table machine ---- *)
HashAbs == tab # <<>> => AbsTab(tab) = contents
HashNoDup == tab # <<>> => \A i, j \in DOMAIN tab.slots : i # j /\ tab.slots[i] = tab.slots[j] => tab.slots[i] \in {EMPTY, DELETED}
HashFindExact == tab # <<>> => \A e \in Univ : Lookup(tab, e) <=> e \in contents
HashCount == tab # <<>> => tab.nel - tab.ndel = Cardinality(contents)
(* every probe sequence meets an EMPTY slot, i.e. a search for an absent element terminates *)
HashSearchTerminates == tab # <<>> => \A e \in Univ : Search(Expanded(tab), e, 0, 0).slot # 0

(* ====================================================================== *)
(* Byte sequences for the stack and the vlo.  A chunk of length n written  *)
(* by operation number b consists of the bytes b, b+1, ... (mod 251).      *)
(* ====================================================================== *)
ChunkBytes(b, n) == [i \in 1..n |-> ((b * 7 + i) % 251) + 1]
Shorten(s, n) == IF n > Len(s) THEN <<>> ELSE SubSeq(s, 1, Len(s) - n)
AddString(s, str) == (IF s = <<>> THEN s ELSE SubSeq(s, 1, Len(s) - 1)) \o str \o <<0>>
Grow(len, add) == LET l == len + add IN l + l \div 2 + 1

(* ====================================================================== *)
(* Object stack.  segs: sequence of [cap, used] (used = bytes of the        *)
(* segment below the top object, incl. alignment padding); fin: sequence   *)
(* of [seg, off, bytes] - segment number and offset never change.          *)
(* ====================================================================== *)
OSDefault == 512
Align(n) == ((n + 7) \div 8) * 8

OCreate(sz) == /\ segs = <<>>
               /\ segs' = <<[id |-> 1, cap |-> IF sz = 0 THEN OSDefault ELSE sz, used |-> 0, cap0 |-> IF sz = 0 THEN OSDefault ELSE sz]>>
               /\ fin' = <<>> /\ top' = <<>>
               /\ Log([op |-> "ocreate", size |-> sz, top |-> <<>>, nfin |-> 0])
               /\ UNCHANGED <<hvars, vvars, nextb>>

(* room needed beyond the current segment => new segment (old one dropped if it held only the top) *)
OFits(n) == LET c == segs[Len(segs)] IN c.used + Len(top) + n <= c.cap
OAfterExpand(n) ==
  IF OFits(n) THEN segs
  ELSE LET c == segs[Len(segs)]
           need == Grow(Len(top), n)
           ncap == IF need < OSDefault THEN OSDefault ELSE need
           newid == c.id + 1
       IN (IF c.used = 0 THEN SubSeq(segs, 1, Len(segs) - 1) ELSE segs) \o <<[id |-> newid, cap |-> ncap, used |-> 0, cap0 |-> c.cap0]>>

OAppend(kind, n, bytes) ==
  /\ segs # <<>>
  /\ segs' = OAfterExpand(n)
  /\ top' = top \o bytes
  /\ Log([op |-> kind, n |-> n, b |-> nextb, top |-> top \o bytes, nfin |-> Len(fin), nseg |-> Len(OAfterExpand(n))])
  /\ nextb' = nextb + 1
  /\ UNCHANGED <<hvars, vvars, fin>>

OAddString(n) ==
  /\ segs # <<>>
  /\ LET str == ChunkBytes(nextb, n)
         t2 == AddString(top, str)
     IN /\ segs' = (IF top = <<>> THEN OAfterExpand(n + 1)
                    ELSE LET c == segs[Len(segs)] IN
                         IF c.used + Len(top) - 1 + n + 1 <= c.cap THEN segs
                         ELSE LET need == Grow(Len(top) - 1, n + 1)
                                  ncap == IF need < OSDefault THEN OSDefault ELSE need
                              IN (IF c.used = 0 THEN SubSeq(segs, 1, Len(segs) - 1) ELSE segs) \o <<[id |-> c.id + 1, cap |-> ncap, used |-> 0, cap0 |-> c.cap0]>>)
        /\ top' = t2
        /\ Log([op |-> "oaddstring", n |-> n, b |-> nextb, top |-> t2, nfin |-> Len(fin)])
  /\ nextb' = nextb + 1
  /\ UNCHANGED <<hvars, vvars, fin>>

OShorten(n) == /\ segs # <<>>
               /\ top' = Shorten(top, n)
               /\ Log([op |-> "oshorten", n |-> n, top |-> Shorten(top, n), nfin |-> Len(fin)])
               /\ UNCHANGED <<hvars, vvars, segs, fin, nextb>>

ONullify == /\ segs # <<>>
            /\ top' = <<>>
            /\ Log([op |-> "onullify", top |-> <<>>, nfin |-> Len(fin)])
            /\ UNCHANGED <<hvars, vvars, segs, fin, nextb>>

OFinish == /\ segs # <<>>
           /\ LET k == Len(segs) c == segs[k] IN
                /\ fin' = Append(fin, [seg |-> c.id, off |-> c.used, bytes |-> top])
                /\ segs' = [segs EXCEPT ![k].used = Align(c.used + Len(top))]
           /\ top' = <<>>
           /\ Log([op |-> "ofinish", top |-> <<>>, nfin |-> Len(fin) + 1])
           /\ UNCHANGED <<hvars, vvars, nextb>>

OEmpty == /\ segs # <<>>
          \* the code keeps the oldest remaining segment and assumes it has the initial length
          \* (it is at least that long: a first segment is only replaced by a longer one)
          /\ segs' = <<[id |-> segs[1].id, cap |-> segs[1].cap0, used |-> 0, cap0 |-> segs[1].cap0]>>
          /\ fin' = <<>> /\ top' = <<>>
          /\ Log([op |-> "oempty", top |-> <<>>, nfin |-> 0])
          /\ UNCHANGED <<hvars, vvars, nextb>>

OsNext == \/ \E sz \in InitSizes : OCreate(sz)
          \/ \E n \in Chunks : \/ OAppend("oaddmem", n, ChunkBytes(nextb, n))
                               \/ OAppend("oexpand", n, ChunkBytes(nextb, n))     \* the driver fills the expanded bytes itself
                               \/ OAddString(n) \/ OShorten(n)
          \/ OAppend("oaddbyte", 1, ChunkBytes(nextb, 1))
          \/ ONullify \/ OFinish \/ OEmpty

(* finished objects never move and never change: checked as an action property *)
FinishedStable == [][\A i \in DOMAIN fin : i \in DOMAIN fin' => fin'[i] = fin[i]
                     \/ fin' = <<>>]_<<fin>>
(* the top object fits into the current segment after every operation, and a segment's finished part never exceeds it *)
OsFits == segs # <<>> => LET c == segs[Len(segs)] IN c.used + Len(top) <= c.cap \/ Len(top) = 0

(* ====================================================================== *)
(* Variable length object                                                  *)
(* ====================================================================== *)
VDefault == 512

VCreate(sz) == /\ vcap = 0
               /\ vcap' = (IF sz = 0 THEN VDefault ELSE sz) /\ vlo' = <<>>
               /\ Log([op |-> "vcreate", size |-> sz, bytes |-> <<>>])
               /\ UNCHANGED <<hvars, ovars, nextb>>

VAppend(kind, n, bytes) ==
  /\ vcap > 0
  /\ vcap' = IF Len(vlo) + n > vcap THEN Grow(Len(vlo), n) ELSE vcap
  /\ vlo' = vlo \o bytes
  /\ Log([op |-> kind, n |-> n, b |-> nextb, bytes |-> vlo \o bytes])
  /\ nextb' = nextb + 1
  /\ UNCHANGED <<hvars, ovars>>

VAddString(n) ==
  /\ vcap > 0
  /\ LET str == ChunkBytes(nextb, n)
         base == IF vlo = <<>> THEN 0 ELSE Len(vlo) - 1
     IN /\ vcap' = IF base + n + 1 > vcap THEN Grow(base, n + 1) ELSE vcap
        /\ vlo' = AddString(vlo, str)
        /\ Log([op |-> "vaddstring", n |-> n, b |-> nextb, bytes |-> AddString(vlo, str)])
  /\ nextb' = nextb + 1
  /\ UNCHANGED <<hvars, ovars>>

VShorten(n) == /\ vcap > 0 /\ vlo' = Shorten(vlo, n)
               /\ Log([op |-> "vshorten", n |-> n, bytes |-> Shorten(vlo, n)])
               /\ UNCHANGED <<hvars, ovars, vcap, nextb>>
VNullify == /\ vcap > 0 /\ vlo' = <<>>
            /\ Log([op |-> "vnullify", bytes |-> <<>>])
            /\ UNCHANGED <<hvars, ovars, vcap, nextb>>
VTailor == /\ vcap > 0 /\ vcap' = (IF Len(vlo) = 0 THEN 1 ELSE Len(vlo))
           /\ Log([op |-> "vtailor", bytes |-> vlo])
           /\ UNCHANGED <<hvars, ovars, vlo, nextb>>

VloNext == \/ \E sz \in InitSizes : VCreate(sz)
           \/ \E n \in Chunks : \/ VAppend("vaddmem", n, ChunkBytes(nextb, n))
                                \/ VAppend("vexpand", n, ChunkBytes(nextb, n))
                                \/ VAddString(n) \/ VShorten(n)
           \/ VAppend("vaddbyte", 1, ChunkBytes(nextb, 1))
           \/ VNullify \/ VTailor

VloFits == vcap > 0 => Len(vlo) <= vcap

(* ====================================================================== *)
Init == /\ tab = <<>> /\ contents = {}
        /\ segs = <<>> /\ fin = <<>> /\ top = <<>>
        /\ vcap = 0 /\ vlo = <<>>
        /\ hist = <<>> /\ nextb = 1

Step == /\ Len(hist) < MaxOps
        /\ CASE Which = "hash" -> HashNext
             [] Which = "os" -> OsNext
             [] OTHER -> VloNext

Finish == /\ Len(hist) = MaxOps
          /\ PrintT(<<"VEC", ToJson([which |-> Which, hist |-> hist])>>)
          /\ hist' = Append(hist, [op |-> "end"])
          /\ UNCHANGED <<hvars, ovars, vvars, nextb>>

Next == Step \/ Finish
Spec == Init /\ [][Next]_<<hvars, ovars, vvars, hist, nextb>>

View == <<tab, contents, segs, fin, top, vcap, vlo>>

(* hash functions for the configurations (configuration files cannot hold function literals) *)
HashId == [e \in Univ |-> e]
HashColl == [e \in Univ |-> (e % 2) * 7 + 3]       \* heavy collisions: two hash values only
HashSpread == [e \in Univ |-> e * 37 + 11]
(* hash values that are critical if a table size were the square of a prime p (9, 25): p elements sit p slots apart and another
   element starts on one of them with a secondary step that is a multiple of p - its probe sequence would never leave them *)
HashSq9 == [e \in Univ |-> CASE e = 1 -> 9 [] e = 2 -> 3 [] e = 3 -> 6 [] e = 4 -> 72 [] e = 5 -> 12 [] OTHER -> 30]
HashSq25 == [e \in Univ |-> CASE e = 1 -> 25 [] e = 2 -> 5 [] e = 3 -> 10 [] e = 4 -> 15 [] e = 5 -> 20 [] OTHER -> 50]
=============================================================================
