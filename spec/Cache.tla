------------------------------- MODULE Cache -------------------------------
(***************************************************************************)
(* The set cache of build_pl (C09, second sentence) as a state machine.    *)
(*                                                                         *)
(* Sets are represented the way the implementation hash-conses them: a set *)
(* is the set of its START situations <<rule, dot, distance>> with         *)
(* RELATIVE distances (how many parser-list positions back the situation   *)
(* started), so that equal sets at different positions are the same value; *)
(* the non-start situations are a function of it (Full).                   *)
(*                                                                         *)
(* The memo maps <<previous set, terminal>> to a ring of up to three        *)
(* <<result set, place>> pairs (place = parser-list index at which the      *)
(* result was computed).  A stored result is reused when                    *)
(* check_cached_transition_set holds: for every start situation of the      *)
(* result with distance > 1 the set at its origin NOW equals the set at the *)
(* corresponding position THEN, both read from the CURRENT parser list.     *)
(* Error recovery rewrites the parser list (Recover) without touching the  *)
(* memo, so stored places may refer to positions that meanwhile hold other  *)
(* sets.                                                                   *)
(*                                                                         *)
(* CacheSound: whenever a stored result is reused it is the set a fresh    *)
(* computation produces at this point.  Lookahead level 0 (no pruning; the  *)
(* key has no lookahead component).                                        *)
(*                                                                         *)
(* Result of model checking (MCCache): without Recover the property holds  *)
(* (7 grammars, all viable token sequences up to 12 tokens).  With Recover *)
(* and Versioned = FALSE TLC finds, in 2 s, a reuse of a set computed for  *)
(* the abandoned continuation: the parser comes back to the index stored   *)
(* as `place', so the check compares every slot with itself.  The history  *)
(* was reproduced on the library (P : stmts | error stmts ; stmts : stmts  *)
(* s | s ; s : 1 2 | 3 s  on  3 3 1 2 2 3 1 2, recovery_match 2: wrong     *)
(* tree) and repaired by stamping results with the number of recoveries    *)
(* (Versioned = TRUE), for which the property holds again.                 *)
(***************************************************************************)
EXTENDS RelSets

CONSTANTS GrammarsC,     \* a sequence of raw definitions to explore
          TermsC,        \* token alphabet
          MaxPl,         \* bound on the parser-list length
          WithRecovery,  \* allow the Recover action
          MaxRec,        \* at most this many recoveries per behaviour
          Versioned      \* TRUE: results are stamped with the number of recoveries so far and only reused under the same
                         \* stamp (the repaired code); FALSE: the original code, for which TLC finds the counterexample below

VARIABLES gi, arr, cur, memo, hits, ver

A_(g) == AugE(Gram(GrammarsC[g]))

(* The parser list is an array that is never cleared: arr holds everything ever written (its length is the
   high-water mark), cur is the index (0-based) of the current last set.  After a recovery moved cur back,
   the slots above cur still hold the sets of the abandoned continuation, and the check below reads them. *)
Valid == SubSeq(arr, 1, cur + 1)
Put(a, i, v) == IF i + 1 <= Len(a) THEN [a EXCEPT ![i + 1] = v] ELSE Append(a, v)

(* check_cached_transition_set *)
Check(set, place) ==
  \A x \in set : x[3] > 1 =>
     /\ place + 1 - x[3] >= 0 /\ cur + 1 - x[3] >= 0 /\ place + 1 - x[3] + 1 <= Len(arr)
     /\ arr[cur + 1 - x[3] + 1] = arr[place + 1 - x[3] + 1]
Usable(r) == (~Versioned \/ r[3] = ver) /\ Check(r[1], r[2])

NoEntry == [res |-> <<>>, curr |-> 0]
Entry(k) == IF k \in DOMAIN memo THEN memo[k] ELSE NoEntry

Init == /\ gi \in DOMAIN GrammarsC
        /\ arr = <<StartSet(A_(gi))>> /\ cur = 0
        /\ memo = [x \in {} |-> NoEntry]
        /\ hits = 0 /\ ver = 0

(* the first stored result that passes the check, 0 if none *)
FirstHit(e) == LET ok == {i \in DOMAIN e.res : Usable(e.res[i])} IN IF ok = {} THEN 0 ELSE Min(ok)

Shift(t) ==
  /\ cur + 1 < MaxPl
  /\ LET A == A_(gi) N == Nullable(A)
         key == <<arr[cur + 1], t>>
         e == Entry(key)
         h == FirstHit(e)
         fresh == Build(A, N, Valid, t)
     IN /\ fresh # {}                                         \* otherwise: syntax error, see Recover
        /\ IF h # 0
           THEN /\ arr' = Put(arr, cur + 1, e.res[h][1])
                /\ memo' = memo
                /\ hits' = hits + 1
           ELSE /\ arr' = Put(arr, cur + 1, fresh)
                /\ LET slot == e.curr + 1
                       res2 == IF slot <= Len(e.res) THEN [e.res EXCEPT ![slot] = <<fresh, cur, ver>>]
                               ELSE Append(e.res, <<fresh, cur, ver>>)
                   IN memo' = (key :> [res |-> res2, curr |-> (e.curr + 1) % 3]) @@ memo
                /\ hits' = hits
  /\ cur' = cur + 1
  /\ UNCHANGED <<gi, ver>>

(* error recovery, abstractly: go back to a position j whose set expects `error', shift `error' there
   (not through the memo), and go on with whatever tokens follow (the model chooses tokens freely) *)
Recover(j) ==
  /\ WithRecovery /\ ver < MaxRec /\ j <= cur /\ j + 1 < MaxPl
  /\ LET A == A_(gi) N == Nullable(A)
         s == Build(A, N, SubSeq(arr, 1, j + 1), ErrName)
     IN /\ s # {}
        /\ arr' = Put(arr, j + 1, s)
  /\ cur' = j + 1 /\ ver' = ver + 1
  /\ UNCHANGED <<gi, memo, hits>>

Next == (\E t \in TermsC : Shift(t)) \/ (\E j \in 0..MaxPl : Recover(j))
Spec == Init /\ [][Next]_<<gi, arr, cur, memo, hits, ver>>

(* ---- the property ---- *)
CacheSound ==
  LET A == A_(gi) N == Nullable(A) IN
  \A t \in TermsC :
    LET e == Entry(<<arr[cur + 1], t>>)
        h == FirstHit(e)
    IN h # 0 => e.res[h][1] = Build(A, N, Valid, t)

(* vacuity probe: the negation is expected to be violated (a reuse does happen in the model) *)
NeverHits == hits = 0
=============================================================================
