---------------------------- MODULE ParseTrace ----------------------------
(***************************************************************************)
(* Trace validation of parse events recorded from the real library.        *)
(* Every line of the ndjson file named by the environment variable TRACE   *)
(* is one complete yaep_parse call: the grammar (as the specification      *)
(* printed it), the input, the configuration and everything the caller     *)
(* could observe (return code, callbacks, ambiguity flag, the trees        *)
(* denoted by the returned DAG).  The trace specification consumes the     *)
(* lines one by one; a line is accepted iff the observation is allowed by  *)
(* the declarative specification (Deriv, Trans, Repair, Member).           *)
(* Rejected lines are printed with the clauses they violate; the           *)
(* postcondition requires that all lines were consumed and none rejected.  *)
(***************************************************************************)
EXTENDS Member, Json, IOUtils, SequencesExt

VARIABLES l, nrej

TraceLines == ndJsonDeserialize(IOEnv.TRACE)

GramOf(e) == [T |-> Range(e.terms) \cup {ErrName}, rules |-> e.rules]

TotalIgnored(calls) == LET f[i \in 0..Len(calls)] == IF i = 0 THEN 0 ELSE f[i - 1] + (calls[i][3] - calls[i][2])
                       IN f[Len(calls)]

CallsSane(e) ==
  LET n == Len(e.w) c == e.calls IN
  \A i \in DOMAIN c :
    /\ 0 <= c[i][1] /\ c[i][1] <= n
    /\ i > 1 => c[i][1] > c[i - 1][1]
    /\ IF e.rec = 1 THEN 0 <= c[i][2] /\ c[i][2] <= c[i][3] /\ c[i][3] <= n
                    ELSE c[i][2] = -1 /\ c[i][3] = -1

(* The set of violated clauses of one event (empty = accepted). *)
Violations(e) ==
  LET G == GramOf(e)
      W == e.w
      n == Len(W)
      sent == IsSentence(G, W)
      trees == Range(e.trees)
  IN
  IF e.rc # 0 THEN {"C01: return code of a parse of declared terminal codes is not 0"}
  ELSE
       (IF sent /\ Len(e.calls) # 0 THEN {"C01: syntax error reported for a sentence"} ELSE {})
  \cup (IF ~sent /\ Len(e.calls) = 0 THEN {"C01: no syntax error reported for a non-sentence"} ELSE {})
  \cup (IF e.rec = 0 /\ sent /\ e.root = 0 THEN {"C01: NULL root for a sentence"} ELSE {})
  \cup (IF e.rec = 0 /\ ~sent /\ e.root = 1 THEN {"C01: root for a non-sentence with recovery off"} ELSE {})
  \cup (IF e.rec = 0 /\ ~sent /\ Len(e.calls) # 1 THEN {"C01: not exactly one callback with recovery off"} ELSE {})
  \cup (IF e.rec = 1 /\ e.root = 0 THEN {"C07: NULL root with recovery on"} ELSE {})
  \cup (IF ~CallsSane(e) THEN {"C06: callback arguments out of range / not increasing"} ELSE {})
  \cup (IF ~sent /\ e.sa = 1 /\ Len(e.calls) >= 1 /\ e.calls[1][1] # FirstOffending(G, W)
        THEN {"C06: first error token is not the first offending token"} ELSE {})
  \cup (IF sent /\ e.amb = 1 /\ NDerivCapped(G, W) < 2 THEN {"C05: ambiguous_p set for an input with one derivation"} ELSE {})
  \cup (IF sent /\ e.root = 1 /\ e.over = 0 /\ e.amb = 0 /\ Cardinality(trees) >= 2
        THEN {"C05: ambiguous_p clear although the result denotes two translations"} ELSE {})
  \cup (IF sent /\ e.root = 1 /\ e.over = 0 /\ e.one = 0 /\ e.cost = 0 /\ "inj" \in DOMAIN e /\ e.inj = 1
           /\ Cardinality(trees) # NDerivCappedAt(G, W, e.cap)
        THEN {IF Cardinality(trees) < NDerivCappedAt(G, W, e.cap)
              THEN "C03: fewer denoted translations than derivations (every derivation has its own translation here)"
              ELSE "C03: more denoted translations than derivations"} ELSE {})
  \cup (IF e.root = 1 /\ trees = {} THEN {"C02/C03: result denotes no tree"} ELSE {})
  \cup (IF e.one = 1 /\ e.root = 1 /\ Cardinality(trees) > 1 THEN {"C02: one_parse result denotes several trees"} ELSE {})
  \cup (IF sent /\ e.root = 1 /\ \E t \in trees : ~IsTranslation(G, W, t)
        THEN {"C02/C03: a denoted tree is not the translation of a derivation of the input"} ELSE {})
  \cup (IF ~sent /\ e.rec = 1 /\ e.root = 1 /\ CallsSane(e)
           /\ \E t \in trees : ~IsRepairTranslation(G, W, t, TotalIgnored(e.calls))
        THEN IF \A t \in trees : IsRepairTranslationLenient(G, W, t, TotalIgnored(e.calls))
             THEN {"C07: deviation TermAttrFromPlIndex - the tree matches a repair of the reported size except for the token numbers of TERM nodes"}
             ELSE {"C07: a denoted tree is not the translation of a repair ignoring the reported number of tokens"}
        ELSE {})
  \cup (IF ~sent /\ e.rec = 1 /\ e.root = 1 /\ CallsSane(e) /\ Len(e.calls) = 1 /\ e.one = 1 /\ Cardinality(trees) = 1
           /\ (\A t \in trees : IsRepairTranslation(G, W, t, TotalIgnored(e.calls)))
           /\ LET t == CHOOSE t \in trees : TRUE
                  S == OneSegStarts(G, W, t, TotalIgnored(e.calls))
              IN Cardinality(S) = 1 /\ e.calls[1][2] \notin S
        THEN {"C07: reported range is not the unique single segment that explains the tree"} ELSE {})
  \cup (IF e.cost = 1 /\ e.root = 1 /\ e.over = 0 /\ "trees0" \in DOMAIN e
           /\ LET base == MinOf(Range(e.trees0)) IN
              IF e.one = 1 THEN ~(trees \subseteq base) ELSE trees # base
        THEN {"C04: result under the cost flag is not the minimal-cost part of the all-parses result"} ELSE {})

Init == l = 1 /\ nrej = 0

Step ==
  /\ l <= Len(TraceLines)
  /\ LET v == Violations(TraceLines[l]) IN
       /\ (v # {} => PrintT(<<"REJ", l, TraceLines[l].id, v>>))
       /\ nrej' = nrej + (IF v = {} THEN 0 ELSE 1)
  /\ l' = l + 1

Spec == Init /\ [][Step]_<<l, nrej>>

TraceAccepted == /\ TLCGet("stats").diameter - 1 = Len(TraceLines)
                 /\ PrintT(<<"TRACE-DONE", Len(TraceLines)>>)

NoRejection == nrej = 0
=============================================================================
