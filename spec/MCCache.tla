------------------------------ MODULE MCCache ------------------------------
(* Design check of the set cache (Cache.tla): all token sequences up to the bound over a few grammars chosen
   for repeated fragments, nullable symbols, ambiguity and error rules; with and without recovery steps. *)
EXTENDS Cache

RR(l, r) == [l |-> l, r |-> r, an |-> 0, c |-> 0, t |-> <<>>]
T3 == <<[n |-> 1, c |-> 1], [n |-> 2, c |-> 2], [n |-> 3, c |-> 3]>>
Curated == <<
  \* 1: list of fragments whose phrase A is reached from two different kernel items:  T : B | B T ; B : 2 A 3 | 3 A 2 ; A : 1 1
  [terms |-> T3, rules |-> <<RR(11, <<12>>), RR(11, <<12, 11>>), RR(12, <<2, 13, 3>>), RR(12, <<3, 13, 2>>), RR(13, <<1, 1>>)>>],
  \* 2: E : E 2 T | T ; T : T 3 F | F ; F : 1
  [terms |-> T3, rules |-> <<RR(11, <<11, 2, 12>>), RR(11, <<12>>), RR(12, <<12, 3, 13>>), RR(12, <<13>>), RR(13, <<1>>)>>],
  \* 3: nullable chain  S : A B C ; A : 1 | ; B : 2 | ; C : 3 |
  [terms |-> T3, rules |-> <<RR(11, <<12, 13, 14>>), RR(12, <<1>>), RR(12, <<>>), RR(13, <<2>>), RR(13, <<>>), RR(14, <<3>>), RR(14, <<>>)>>],
  \* 4: ambiguous  S : S S | 1 | 2
  [terms |-> T3, rules |-> <<RR(11, <<11, 11>>), RR(11, <<1>>), RR(11, <<2>>)>>],
  \* 5: statements with an error rule  P : P s | s ; s : 1 2 | error 2 | 3 s
  [terms |-> T3, rules |-> <<RR(11, <<11, 12>>), RR(11, <<12>>), RR(12, <<1, 2>>), RR(12, <<0, 2>>), RR(12, <<3, 12>>)>>],
  \* 6: nested  S : 1 S 2 | 3 | error
  [terms |-> T3, rules |-> <<RR(11, <<1, 11, 2>>), RR(11, <<3>>), RR(11, <<0>>)>>],
  \* 7: hidden left recursion  S : A S 2 | 1 ; A : | 3
  [terms |-> T3, rules |-> <<RR(11, <<12, 11, 2>>), RR(11, <<1>>), RR(12, <<>>), RR(12, <<3>>)>>]
>>
=============================================================================
