------------------------------ MODULE MCGram ------------------------------
(***************************************************************************)
(* Model: every grammar of a small family, built rule by rule (so that all *)
(* TLC workers have states to expand), judged by the declarative layer.    *)
(* Each reachable state is a rule sequence = one raw definition.  For each *)
(* of them TLC evaluates the documented defects (strict and not) and, for  *)
(* accepted definitions, the expected observables of every input up to     *)
(* MaxLen, and prints them as one JSON line (a "vector") which the replay  *)
(* harness executes against the real library.  The invariants below are    *)
(* sanity lemmas relating the independent oracles to each other.           *)
(***************************************************************************)
EXTENDS Repair, Json, SequencesExt

CONSTANTS Terms,      \* terminal names, e.g. {1, 2}
          NTs,        \* nonterminal names, e.g. {11, 12}; Min(NTs) is the start symbol
          MaxRules, MaxRhs, MaxLen,
          UseErr,     \* allow `error' (name 0) in right-hand sides
          Variants,   \* translation variants offered per rule (see RuleOf)
          EmitTrees,  \* compute and emit translation sets
          Recov       \* 0: nothing; k > 0: emit recovery expectations for recovery_match 1..k

VARIABLES rules

StartNT == Min(NTs)
RhsSyms == Terms \cup NTs \cup (IF UseErr THEN {ErrName} ELSE {})
SeqsUpTo(S, n) == UNION {[1..k -> S] : k \in 0..n}

Iota(n) == [i \in 1..n |-> i]
Rev(n) == [i \in 1..n |-> n + 1 - i]

(* The translation part of a rule with right-hand side r, by variant number;
   <<>> (not applicable) is filtered out. *)
TrOf(r, v) ==
  LET n == Len(r) IN
  CASE v = 0 -> [an |-> 0, c |-> 0, t |-> <<>>]                 \* no translation: NIL
    [] v = 1 -> IF n >= 1 THEN [an |-> 0, c |-> 0, t |-> <<1>>] ELSE <<>>      \* pass first
    [] v = 2 -> IF n >= 2 THEN [an |-> 0, c |-> 0, t |-> <<n>>] ELSE <<>>      \* pass last
    [] v = 3 -> [an |-> 0, c |-> 0, t |-> <<0>>]                \* `# -'
    [] v = 4 -> [an |-> 1, c |-> 1, t |-> Iota(n)]              \* anode, all in order
    [] v = 5 -> IF n >= 2 THEN [an |-> 2, c |-> 2, t |-> Rev(n)] ELSE <<>>     \* anode, permuted
    [] v = 6 -> IF n >= 2 THEN [an |-> 1, c |-> 0, t |-> <<n>>] ELSE <<>>      \* anode, partial
    [] v = 7 -> IF n >= 1 THEN [an |-> 2, c |-> 3, t |-> <<0, 1>>] ELSE <<>>   \* anode, NIL-padded
    [] v = 8 -> [an |-> 3, c |-> 1, t |-> <<>>]                 \* anode without children
    [] v = 9 -> [an |-> 1, c |-> 2, t |-> Iota(n)]              \* same name as 4, other cost
    [] v = 10 -> [an |-> 3, c |-> 0, t |-> <<>>]                \* anode without children, cost 0
    [] v = 11 -> [an |-> 2, c |-> 0, t |-> Iota(n)]             \* anode, all in order, cost 0
    [] OTHER -> <<>>

RuleMenu ==
  UNION {{[l |-> l, r |-> r, an |-> x.an, c |-> x.c, t |-> x.t] :
            l \in NTs, x \in {TrOf(r, v) : v \in Variants} \ {<<>>}}
         : r \in SeqsUpTo(RhsSyms, MaxRhs)}

Inputs == SeqsUpTo(Terms, MaxLen)

TermDecls == SetToSeq({[n |-> t, c |-> t] : t \in Terms})
Raw(rs) == [terms |-> TermDecls, rules |-> rs]

(* rcs[k + 1][m]: cheapest simple recovery when the error is detected at token k (0-based) and
   recovery_match = m.  The error token is the first offending one for grammars accepted under
   strict checking (C06); otherwise detection may be later, so all k >= fo are tabulated. *)
RecovCase(G, w, fo) ==
  [rcs |-> [k1 \in 1..(Len(w) + 1) |->
              [m \in 1..Recov |-> IF k1 - 1 < fo THEN -1 ELSE MinSimpleRecoveryCost(G, w, k1 - 1, m)]]]

Case(G, w) ==
  LET sent == IsSentence(G, w)
      trs == IF EmitTrees /\ sent THEN Translations(G, w) ELSE {}
      fo == FirstOffending(G, w)
  IN [w |-> w, sent |-> sent, fo |-> fo,
      nd |-> IF sent THEN NDerivCapped(G, w) ELSE 0,
      trs |-> SetToSeq(trs),
      mins |-> SetToSeq(MinOf(trs)),
      rv |-> IF Recov > 0 /\ ~sent THEN <<RecovCase(G, w, fo)>> ELSE <<>>]

Vector(rs) ==
  LET raw == Raw(rs)
      dn == Defects(raw, FALSE)
      ds == Defects(raw, TRUE)
  IN [rules |-> rs, dn |-> SetToSeq(dn), ds |-> SetToSeq(ds),
      cases |-> IF dn = {} THEN SetToSeq({Case(Gram(raw), w) : w \in Inputs}) ELSE <<>>]

Init == rules = <<>>
AddRule(rl) == /\ Len(rules) < MaxRules
               /\ Len(rules) = 0 => rl.l = StartNT
               /\ rules' = Append(rules, rl)
Next == \E rl \in RuleMenu : AddRule(rl)
Spec == Init /\ [][Next]_rules

(* Printing is done from an invariant so that it happens once per distinct state. *)
Emit == Len(rules) >= 1 => PrintT(<<"VEC", ToJson(Vector(rules))>>)

(* ---- lemmas relating the independent oracles (checked on every accepted grammar) ---- *)
Lemmas ==
  LET raw == Raw(rules) IN
  (Len(rules) >= 1 /\ Defects(raw, FALSE) = {}) =>
    LET G == Gram(raw) IN
    \A w \in Inputs :
      LET sent == IsSentence(G, w) IN
      /\ sent <=> FirstOffending(G, w) = -1
      /\ sent <=> NDerivCapped(G, w) >= 1
      /\ sent => Viable(G, w, Len(w))                      \* a sentence is a viable prefix
      /\ \A k \in 1..Len(w) : Viable(G, w, k) => Viable(G, w, k - 1)   \* prefix closure
      /\ EmitTrees /\ sent => /\ Translations(G, w) # {}
                              /\ Cardinality(Translations(G, w)) >= 2 => NDerivCapped(G, w) = 2
=============================================================================
