--------------------------- MODULE MCDescrJudge ---------------------------
(* Judges arbitrary texts (JSON file named by the environment variable TEXTS: a list of lists of
   character codes) against the documented description syntax: one state per text. *)
EXTENDS Descr, Json, IOUtils

Texts == JsonDeserialize(IOEnv.TEXTS)
VARIABLE i
JInit == i = 0
JNext == i = 0 /\ i' \in 1..Len(Texts)
JSpec == JInit /\ [][JNext]_i
JEmit == i > 0 => PrintT(<<"VEC", ToJson([i |-> i, ok |-> SyntaxOK(Texts[i]), okext |-> SyntaxOKExt(Texts[i]),
                                         lex |-> LexOK(Texts[i]), lines |-> Lines(Texts[i])])>>)
=============================================================================
