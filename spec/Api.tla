-------------------------------- MODULE Api --------------------------------
(***************************************************************************)
(* The API-history machine (C14, C15, parts of C10/C13): a few grammar     *)
(* object slots, every public call as one action, and for every call the   *)
(* result it must produce GIVEN ONLY THE SLOT'S OWN STATE (definition and  *)
(* settings).  The implementation keeps most of its state in file-static   *)
(* variables shared by all objects; this specification has none, so any    *)
(* leak of state between objects or from an object's past shows up as a    *)
(* behaviour of the code that is not a behaviour of this machine.          *)
(*                                                                         *)
(* Definitions come from a pool (Defs); what a definition call returns is  *)
(* CFG!Defects, what a parse returns is Deriv!IsSentence etc.              *)
(* The variable hist records the calls with their expected results; TLC    *)
(* prints complete behaviours (simulation mode) and the harness yv_api     *)
(* executes them against the library, comparing after every call.          *)
(***************************************************************************)
EXTENDS Deriv, Json, SequencesExt

CONSTANTS Slots,        \* e.g. {1, 2}
          MaxHist,      \* length of the printed behaviours
          LaVals, MatchVals, DbgVals, FlagVals,
          MaxFaults     \* C17: how many calls of a behaviour may suffer an allocation failure

LaWide == {-1, 0, 1, 2, 3}    \* TLC configuration files cannot hold negative literals
(* extreme setter arguments (C12): INT_MIN, INT_MAX and neighbours *)
IntMin == -2147483647 - 1
IntMax == 2147483647
LaExtreme == {IntMin, -1, 0, 1, 2, 3, IntMax}
MatchExtreme == {IntMin, -5, 0, 1, 3, 1000000, IntMax}
DbgExtreme == {IntMin, -1, 0, 1, 7, IntMax}
FlagExtreme == {IntMin, -1, 0, 1, 2, IntMax}

(* ---------- pools ---------- *)
R(l, r, an, c, t) == [l |-> l, r |-> r, an |-> an, c |-> c, t |-> t]
T2 == <<[n |-> 1, c |-> 1], [n |-> 2, c |-> 2]>>

Defs == <<
  \* 1: S : a S b # p(0 1) | ;        good
  [terms |-> T2, rules |-> <<R(11, <<1, 11, 2>>, 1, 1, <<1, 2>>), R(11, <<>>, 0, 0, <<>>)>>],
  \* 2: S : S a | a | error           good, left recursive, with error rule
  [terms |-> T2, rules |-> <<R(11, <<11, 1>>, 1, 1, <<1, 2>>), R(11, <<1>>, 0, 0, <<1>>), R(11, <<0>>, 0, 0, <<>>)>>],
  \* 3: S : S S | a                   good, ambiguous
  [terms |-> <<[n |-> 1, c |-> 1]>>, rules |-> <<R(11, <<11, 11>>, 1, 1, <<1, 2>>), R(11, <<1>>, 0, 0, <<1>>)>>],
  \* 4: repeated terminal code        defect found while reading terminals
  [terms |-> <<[n |-> 1, c |-> 1], [n |-> 2, c |-> 1]>>, rules |-> <<R(11, <<1>>, 0, 0, <<>>)>>],
  \* 5: terminal as left-hand side    defect found while reading rules
  [terms |-> T2, rules |-> <<R(11, <<1>>, 0, 0, <<>>), R(2, <<1>>, 0, 0, <<>>)>>],
  \* 6: S : A ; A : A                 loop, found by check_grammar
  [terms |-> T2, rules |-> <<R(11, <<12>>, 0, 0, <<>>), R(12, <<12>>, 0, 0, <<>>), R(12, <<1>>, 0, 0, <<>>)>>],
  \* 7: S : a ; B : b                 good unless strict (B unreachable)
  [terms |-> T2, rules |-> <<R(11, <<1>>, 0, 0, <<>>), R(12, <<2>>, 0, 0, <<>>)>>],
  \* 8: translation index out of range
  [terms |-> T2, rules |-> <<R(11, <<1>>, 1, 1, <<2>>)>>],
  \* 9: good, with 170 terminals: the symbol tables of the object grow while it is being defined
  [terms |-> [i \in 1..170 |-> [n |-> 100 + i, c |-> 100 + i]],
   rules |-> <<R(11, <<101, 11, 102>>, 1, 1, <<1, 2>>), R(11, <<270>>, 0, 0, <<1>>), R(11, <<12>>, 0, 0, <<1>>), R(12, <<103, 104>>, 2, 1, <<2>>)>>],
  \* 10: good, one nonterminal with 130 alternatives: written as a description text it is one wide rule (the yacc parser of
  \*     descriptions must cope with it, in particular when memory for its own stack is refused)
  [terms |-> [i \in 1..130 |-> [n |-> 100 + i, c |-> 100 + i]],
   rules |-> [i \in 1..130 |-> R(11, <<100 + i>>, 0, 0, <<1>>)]]
>>
DefIds == DOMAIN Defs
BadText == 0          \* a description with a syntax error

(* inputs: sequences of token "names"; 8 and 9 are codes that no definition declares (the harness
   maps 8 to a code lying between declared codes and 9 to one outside their range) *)
InputPool == {<<>>, <<1>>, <<1, 2>>, <<1, 1>>, <<1, 1, 2, 2>>, <<2>>, <<1, 9>>, <<9>>, <<1, 1, 1>>, <<1, 8>>, <<8>>, <<101, 270, 102>>, <<103, 104>>}

AllocModes == {"ff", "fn", "nn", "nf"}   \* (alloc, free): f = given, n = NULL

DefRcSet == [d \in DefIds |-> [s \in BOOLEAN |-> Defects(Defs[d], s)]]
SentTab == [d \in DefIds |-> [w \in InputPool |->
              IF Defects(Defs[d], FALSE) = {} /\ Range(w) \subseteq TermNames(Defs[d])
              THEN IsSentence(Gram(Defs[d]), w) ELSE FALSE]]

(* ---------- state ---------- *)
VARIABLES obj, hist, faults

Dead == [life |-> "dead", def |-> 0, la |-> 0, one |-> 0, cost |-> 0, rec |-> 0, match |-> 0, dbg |-> 0, err |-> 0]
Fresh == [life |-> "undef", def |-> 0, la |-> 1, one |-> 1, cost |-> 0, rec |-> 1, match |-> 3, dbg |-> 0, err |-> 0]

Alive(s) == obj[s].life # "dead"
Usable(s) == obj[s].life \in {"undef", "ok"}
Clamp(v) == IF v < 0 THEN 0 ELSE IF v > 2 THEN 2 ELSE v

Log(e) == hist' = Append(hist, e) /\ UNCHANGED faults

Create(s) == /\ ~Alive(s)
             /\ obj' = [obj EXCEPT ![s] = Fresh]
             /\ Log([op |-> "create", s |-> s, err |-> 0])

Free(s) == /\ Alive(s)
           /\ obj' = [obj EXCEPT ![s] = Dead]
           /\ Log([op |-> "free", s |-> s])

SetLa(s, v) == /\ Usable(s)
               /\ obj' = [obj EXCEPT ![s].la = Clamp(v)]
               /\ Log([op |-> "set", s |-> s, which |-> "la", v |-> v, prev |-> obj[s].la, err |-> obj[s].err])
SetFlag(s, f, v) ==
  /\ Usable(s)
  /\ obj' = [obj EXCEPT ![s] = [obj[s] EXCEPT ![f] = v]]
  /\ Log([op |-> "set", s |-> s, which |-> f, v |-> v, prev |-> obj[s][f], err |-> obj[s].err])

(* A definition call: succeeds iff the definition has no documented defect; a failing call
   returns one of the defects present and leaves the object unusable. *)
Define(s, d, strict, text) ==
  /\ Usable(s)
  /\ LET ds == DefRcSet[d][strict] IN
     \/ /\ ds = {}
        /\ obj' = [obj EXCEPT ![s].life = "ok", ![s].def = d]
        /\ Log([op |-> "define", s |-> s, d |-> d, strict |-> strict, text |-> text, rcs |-> <<0>>, err |-> obj[s].err])
     \/ /\ ds # {}
        /\ obj' = [obj EXCEPT ![s].life = "undef", ![s].def = 0, ![s].err = -1]   \* -1: one of rcs, bound by the replay
        /\ Log([op |-> "define", s |-> s, d |-> d, strict |-> strict, text |-> text, rcs |-> SetToSeq(ds), err |-> -1])

DefineBadText(s, strict) ==
  /\ Usable(s)
  /\ obj' = [obj EXCEPT ![s].life = "undef", ![s].def = 0, ![s].err = 3]
  /\ Log([op |-> "define", s |-> s, d |-> BadText, strict |-> strict, text |-> TRUE, rcs |-> <<3>>, err |-> 3])

(* yaep_parse.  The possible outcomes depend on the slot only. *)
Parse(s, w, mode) ==
  /\ Usable(s)
  /\ LET o == obj[s]
         undefined == o.life # "ok"
         nomem == mode = "nf"
         invalid == ~undefined /\ ~(Range(w) \subseteq TermNames(Defs[o.def]))
         rcs == IF undefined /\ nomem THEN {1, 2}
                ELSE IF nomem THEN {1}
                ELSE IF undefined THEN {2}
                ELSE IF invalid THEN {17} ELSE {0}
         sent == IF rcs = {0} THEN SentTab[o.def][w] ELSE FALSE
     IN /\ obj' = [obj EXCEPT ![s].err = IF rcs = {0} THEN o.err ELSE IF Cardinality(rcs) = 1 THEN CHOOSE x \in rcs : TRUE ELSE -1]
        /\ Log([op |-> "parse", s |-> s, d |-> o.def, w |-> w, mode |-> mode, rcs |-> SetToSeq(rcs),
                sent |-> sent, rec |-> o.rec, la |-> o.la, one |-> o.one, cost |-> o.cost, match |-> o.match,
                err |-> IF rcs = {0} THEN o.err ELSE IF Cardinality(rcs) = 1 THEN CHOOSE x \in rcs : TRUE ELSE -1])

(* ---------- allocation failure (C17) ----------
   Any single internal memory request of yaep_create_grammar, of a definition or of yaep_parse may
   fail.  The call then returns NULL respectively YAEP_NO_MEMORY; nothing else is promised about the
   object except that it can still be freed ("faulted": only Free is enabled), and the other slots
   are untouched.  Whether the request chosen by the replay really happens inside the call is not known
   to the specification, so the entry also carries the results of the undisturbed call. *)
Faulted == [Dead EXCEPT !.life = "faulted"]
CanFault == faults < MaxFaults

FCreate(s) == /\ CanFault /\ ~Alive(s)
              /\ obj' = [obj EXCEPT ![s] = Faulted]
              /\ hist' = Append(hist, [op |-> "create", s |-> s, err |-> 0, fault |-> TRUE])
              /\ faults' = faults + 1

FDefine(s, d, strict, text) ==
  /\ CanFault /\ Alive(s) /\ obj[s].life # "faulted"
  /\ obj' = [obj EXCEPT ![s] = Faulted]
  /\ hist' = Append(hist, [op |-> "define", s |-> s, d |-> d, strict |-> strict, text |-> text,
                           rcs |-> IF DefRcSet[d][strict] = {} THEN <<0>> ELSE SetToSeq(DefRcSet[d][strict]), err |-> -1, fault |-> TRUE])
  /\ faults' = faults + 1

FParse(s, w, mode) ==
  /\ CanFault /\ obj[s].life = "ok" /\ mode \in {"ff", "nn"} /\ Range(w) \subseteq TermNames(Defs[obj[s].def])
  /\ obj' = [obj EXCEPT ![s] = Faulted]
  /\ hist' = Append(hist, [op |-> "parse", s |-> s, d |-> obj[s].def, w |-> w, mode |-> mode, rcs |-> <<0>>,
                           sent |-> SentTab[obj[s].def][w], rec |-> obj[s].rec, la |-> obj[s].la, one |-> obj[s].one,
                           cost |-> obj[s].cost, match |-> obj[s].match, err |-> -1, fault |-> TRUE])
  /\ faults' = faults + 1

Init == obj = [s \in Slots |-> Dead] /\ hist = <<>> /\ faults = 0

Step ==
  /\ Len(hist) < MaxHist
  /\ \E s \in Slots :
       \/ Create(s) \/ Free(s)
       \/ \E v \in LaVals : SetLa(s, v)
       \/ \E v \in FlagVals : SetFlag(s, "one", v) \/ SetFlag(s, "cost", v) \/ SetFlag(s, "rec", v)
       \/ \E v \in MatchVals : SetFlag(s, "match", v)
       \/ \E v \in DbgVals : SetFlag(s, "dbg", v)
       \/ \E d \in DefIds, st \in BOOLEAN, tx \in BOOLEAN : Define(s, d, st, tx)
       \/ \E st \in BOOLEAN : DefineBadText(s, st)
       \/ \E w \in InputPool, m \in AllocModes : Parse(s, w, m)
       \/ FCreate(s)
       \/ \E d \in DefIds, st \in BOOLEAN, tx \in BOOLEAN : FDefine(s, d, st, tx)
       \/ \E w \in InputPool, m \in AllocModes : FParse(s, w, m)

(* The behaviour is printed by an action (not an invariant) so that in simulation mode it is printed
   once, for the state the walk really reached. *)
Finish == /\ Len(hist) = MaxHist
          /\ PrintT(<<"VEC", ToJson([hist |-> hist])>>)
          /\ hist' = Append(hist, [op |-> "end", s |-> 0])
          /\ UNCHANGED <<obj, faults>>

Next == Step \/ Finish

Spec == Init /\ [][Next]_<<obj, hist, faults>>

(* ---------- scripted behaviours ----------
   The same actions, but the kind of call and the slot of every step are fixed by a script and TLC enumerates ALL
   choices of definitions, inputs and allocator modes (breadth-first, no sampling): interference patterns that random
   walks meet rarely - an object parsed, another object parsed, the first one parsed again - are covered exhaustively. *)
ScriptDefs == {1, 3, 7, 10}
ScriptInputs == {<<>>, <<1>>, <<1, 1>>, <<1, 2>>}
SA(o, s) == [op |-> o, s |-> s]
ScriptTwo == <<SA("create", 1), SA("create", 2), SA("define", 1), SA("define", 2), SA("parse", 1), SA("parse", 2), SA("parse", 1),
               SA("free", 1), SA("parse", 2)>>
ScriptOne == <<SA("create", 1), SA("define", 1), SA("parse", 1), SA("define", 1), SA("parse", 1), SA("parse", 1)>>
SF(w) == [op |-> "set", s |-> 1, which |-> w]
(* one object: every combination of the three result-selecting flags, a parse, every flag read back through its setter, another parse *)
SG(w) == [op |-> "get", s |-> 1, which |-> w]       \* read a flag back: the setter called with 1 returns the previous value
ScriptFlags == <<SA("create", 1), SF("one"), SF("cost"), SF("rec"), SA("define", 1), SA("parse", 1), SG("one"), SG("cost"), SG("rec"), SA("parse", 1)>>
(* one object parsed three times, every parse with any pair of allocation functions (the caller's pair, alloc only, the defaults,
   the refused NULL/free pair); the harness keeps every tree and releases it, with the functions of ITS parse, after all calls *)
SM(s) == [op |-> "parsem", s |-> s]
ScriptModes == <<SA("create", 1), SA("define", 1), SM(1), SM(1), SM(1)>>
ScriptDefsBad == {1, 3, 4, 5, 8, 10}      \* with definitions that fail while terminals (4), rules (5) or translations (8) are read
ScriptStep(script, defs) ==
  LET i == Len(hist) + 1 IN
  /\ i <= Len(script)
  /\ LET e == script[i] IN
       \/ e.op = "create" /\ Create(e.s)
       \/ e.op = "free" /\ Free(e.s)
       \/ e.op = "set" /\ \E v \in {0, 1, 2} : SetFlag(e.s, e.which, v)      \* 2: any non-zero value means "on" and is handed back as it is
       \/ e.op = "get" /\ SetFlag(e.s, e.which, 1)
       \/ e.op = "define" /\ \E d \in defs : Define(e.s, d, FALSE, FALSE)
       \/ e.op = "parse" /\ \E w \in ScriptInputs : Parse(e.s, w, "ff")
       \/ e.op = "parsem" /\ \E w \in {<<1>>, <<1, 1>>}, m \in AllocModes : Parse(e.s, w, m)
ScriptFinish(script) ==
  /\ Len(hist) = Len(script)
  /\ PrintT(<<"VEC", ToJson([hist |-> hist])>>)
  /\ hist' = Append(hist, [op |-> "end", s |-> 0])
  /\ UNCHANGED <<obj, faults>>
SpecTwo == Init /\ [][ScriptStep(ScriptTwo, ScriptDefs) \/ ScriptFinish(ScriptTwo)]_<<obj, hist, faults>>
SpecOne == Init /\ [][ScriptStep(ScriptOne, ScriptDefsBad) \/ ScriptFinish(ScriptOne)]_<<obj, hist, faults>>
SpecFlags == Init /\ [][ScriptStep(ScriptFlags, ScriptDefs) \/ ScriptFinish(ScriptFlags)]_<<obj, hist, faults>>
SpecModes == Init /\ [][ScriptStep(ScriptModes, ScriptDefs) \/ ScriptFinish(ScriptModes)]_<<obj, hist, faults>>

(* ---------- invariants of the machine ---------- *)
TypeOK == \A s \in Slots : obj[s].life \in {"dead", "undef", "ok", "faulted"} /\ obj[s].la \in 0..2
DefinedIffOk == \A s \in Slots : (obj[s].life = "ok") <=> (obj[s].def # 0)
OkMeansAccepted == \A s \in Slots : obj[s].life = "ok" => \E st \in BOOLEAN : DefRcSet[obj[s].def][st] = {}
(* error code is 0 until some call on the object has failed *)
ErrZeroOnFresh == \A s \in Slots : obj[s].err # 0 =>
                    \E i \in DOMAIN hist : hist[i].s = s /\ "rcs" \in DOMAIN hist[i] /\ hist[i].rcs # <<0>>

EmitPools == Len(hist) = 0 => PrintT(<<"VEC", ToJson([defs |-> Defs, inputs |-> SetToSeq(InputPool)])>>)

(* view for exhaustive checking: the history is an observation, not state *)
View == <<obj, faults>>
=============================================================================
