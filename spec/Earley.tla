------------------------------- MODULE Earley -------------------------------
(***************************************************************************)
(* The recognition mechanism (build_pl / build_new_set /                   *)
(* expand_new_start_set of yaep.c) as a state machine over Earley sets.    *)
(*                                                                         *)
(* The grammar is augmented the way the implementation does it and rules   *)
(* are numbered like rule->num:                                            *)
(*    rule 0      AX -> Start EOF                                          *)
(*    rules 1..n  the user's rules                                         *)
(*    rule n+1    AX -> error EOF      (the implicit recovery rule, unless *)
(*                a start rule is `error' followed by nullable symbols)    *)
(* An item is <<rule number, dot, origin>>; a set is a set of items; the   *)
(* parser list is the sequence of sets pl[0..k] for the symbols shifted so *)
(* far (tokens, and `error' after recoveries).                             *)
(*                                                                         *)
(*  - EarleySet: the textbook closure (scan, predict, complete, advance    *)
(*    over nullable symbols) - the IDEAL sets: every item the              *)
(*    implementation ever places must be one of these;                     *)
(*    with lookahead levels 1 and 2 the implementation prunes them, so its *)
(*    sets are subsets of the ideal ones (checked on recorded sets by      *)
(*    EarleyTrace.tla; that pruning never changes an outcome is C09);      *)
(*  - design invariants relating the ideal sets to the declarative oracle  *)
(*    of Deriv.                                                            *)
(***************************************************************************)
EXTENDS Repair

EOF == EofName

StartAbsorbsError(G) ==
  \E k \in RulesOf(G, Start(G)) :
     /\ Len(G.rules[k].r) >= 1 /\ G.rules[k].r[1] = ErrName
     /\ \A q \in 2..Len(G.rules[k].r) : G.rules[k].r[q] \in Nullable(G)

NR(l, r) == [l |-> l, r |-> r, an |-> 0, c |-> 0, t |-> <<>>]

(* AugE(G).rules[i + 1] is the implementation's rule number i. *)
AugE(G) == [T |-> G.T \cup {EOF},
            rules |-> <<NR(AX, <<Start(G), EOF>>)>> \o G.rules
                      \o (IF StartAbsorbsError(G) THEN <<>> ELSE <<NR(AX, <<ErrName, EOF>>)>>)]

Rhs(A, it) == A.rules[it[1] + 1].r
Lhs(A, it) == A.rules[it[1] + 1].l
AtEnd(A, it) == it[2] = Len(Rhs(A, it))
NextSym(A, it) == Rhs(A, it)[it[2] + 1]

(* one closure step of set S (the k-th set) given the earlier sets *)
ClosureStep(A, N, S, k, sets) ==
  S \cup UNION {
        IF AtEnd(A, it)
        THEN \* complete: advance the items waiting for Lhs(it) at the origin
             {<<p[1], p[2] + 1, p[3]>> :
                 p \in {p \in (IF it[3] = k THEN S ELSE sets[it[3] + 1]) : ~AtEnd(A, p) /\ NextSym(A, p) = Lhs(A, it)}}
        ELSE LET X == NextSym(A, it) IN
             IF IsT(A, X) THEN {}
             ELSE {<<r - 1, 0, k>> : r \in RulesOf(A, X)}                        \* predict
                  \cup (IF X \in N THEN {<<it[1], it[2] + 1, it[3]>>} ELSE {})    \* advance over a nullable symbol
        : it \in S}

RECURSIVE Closure(_, _, _, _, _)
Closure(A, N, S, k, sets) ==
  LET S2 == ClosureStep(A, N, S, k, sets) IN IF S2 = S THEN S ELSE Closure(A, N, S2, k, sets)

Scan(A, S, t) == {<<it[1], it[2] + 1, it[3]>> : it \in {it \in S : ~AtEnd(A, it) /\ NextSym(A, it) = t}}

StartItems(A) == {<<r - 1, 0, 0>> : r \in RulesOf(A, AX)}

(* The ideal parser list for the shifted symbols u: sets[k + 1] is the set after u[1..k]. *)
RECURSIVE SetsFrom(_, _, _, _)
SetsFrom(A, N, u, sets) ==
  LET k == Len(sets) IN
  IF k > Len(u) THEN sets
  ELSE SetsFrom(A, N, u, Append(sets, Closure(A, N, Scan(A, sets[k], u[k]), k, sets)))

EarleySets(G, u) ==
  LET A == AugE(G) N == Nullable(A)
  IN SetsFrom(A, N, u, <<Closure(A, N, StartItems(A), 0, <<>>)>>)

Accepting(S) == \E it \in S : it[1] = 0 /\ it[2] = 2 /\ it[3] = 0        \* AX -> Start EOF .

(* ------------------------------------------------------------------ *)
(* Design properties, for an input W of real tokens (u = W followed by EOF) *)
(* ------------------------------------------------------------------ *)
WithEof(W) == W \o <<EOF>>

(* number of symbols shifted before the first missing transition (Len(u) if none) *)
RECURSIVE ShiftedOK(_, _, _)
ShiftedOK(A, sets, u) ==      \* sets computed by SetsFrom always has Len(u)+1 elements; find the first empty scan
  LET bad == {k \in 1..Len(u) : Scan(A, sets[k], u[k]) = {}} IN IF bad = {} THEN Len(u) ELSE Min(bad) - 1

AcceptExact(G, W) ==
  LET sets == EarleySets(G, WithEof(W)) IN Accepting(sets[Len(W) + 2]) <=> IsSentence(G, W)

(* the first token without a transition is the first offending token (error as ordinary terminal) *)
ErrorAtFirstOffending(G, W) ==
  LET A == AugE(G) u == WithEof(W) sets == EarleySets(G, u) IN
  ~IsSentence(G, W) => ShiftedOK(A, sets, u) = FirstOffending(G, W)

(* every item of an ideal set is a valid Earley item: its rule's prefix derives the span (bottom-up part) *)
ItemsDeriveSpans(G, W) ==
  LET A == AugE(G) u == WithEof(W) sets == EarleySets(G, u) Sp == Spans(A, u) IN
  \A k \in DOMAIN sets : \A it \in sets[k] :
     it[3] <= k - 1 /\ (k - 1) \in MatchFrom(A, u, Sp, SubSeq(Rhs(A, it), 1, it[2]), 1, it[3])

(* the parser list never needs more than 2 * (tokens + 1) elements (pl_create's allocation) *)
PlBound(n_tokens_with_eof, pl_len) == pl_len <= 2 * (n_tokens_with_eof + 1)
=============================================================================
