---------------------------- MODULE EarleyTrace ----------------------------
(***************************************************************************)
(* Trace validation of the recognition mechanism.  Every line of the       *)
(* ndjson file (environment variable TRACE) is one yaep_parse with the     *)
(* hook events of that parse: every Earley set placed into the parser      *)
(* list (built, reused from the cache, or restored by the chosen error     *)
(* recovery), every fresh re-computation made when a cached set is reused. *)
(* The trace specification replays the events, keeping the symbols shifted *)
(* for each parser list position (tokens and `error'), and accepts a line  *)
(* iff every recorded item is an item of the IDEAL Earley set of           *)
(* Earley.tla for that position: right rule, dot, and origin; with         *)
(* lookahead level 0 the recorded set must moreover BE the ideal set       *)
(* (reported separately as a diagnostic, not as a verdict: dropping a      *)
(* useless item is not a violation of a listed property).                  *)
(***************************************************************************)
EXTENDS Earley, Json, IOUtils, SequencesExt

VARIABLES l
TraceLines == ndJsonDeserialize(IOEnv.TRACE)

GramOfLine(e) == [T |-> Range(e.terms) \cup {ErrName}, rules |-> e.rules]

(* items of an event as <<rule, dot, origin>> for a set at position a *)
ItemsOf(ev) == {<<ev.it[i][1], ev.it[i][2], ev.a - ev.it[i][3]>> : i \in DOMAIN ev.it}

(* replay the events; syms[i] = symbol shifted into position i, isets[i + 1] = the ideal set after syms[1..i] (kept along,
   so that a line costs one closure per event).  Returns the set of problems. *)
RECURSIVE Replay(_, _, _, _, _, _, _)
Replay(A, N, evs, i, syms, isets, acc) ==
  IF i > Len(evs) THEN acc
  ELSE LET ev == evs[i] IN
       IF ev.k \notin {1, 2} THEN Replay(A, N, evs, i + 1, syms, isets, acc)
       ELSE IF ev.a = 0
       THEN LET ideal == Closure(A, N, StartItems(A), 0, <<>>)
                got == ItemsOf(ev)
            IN Replay(A, N, evs, i + 1, <<>>, <<ideal>>,
                      acc \cup (IF got \subseteq ideal THEN {} ELSE {"C01: start set holds an item that is not a valid Earley item"})
                          \cup (IF got # ideal /\ ev.e = 0 THEN {"DIAG: start set differs from the ideal set at lookahead 0"} ELSE {}))
       ELSE IF ev.a > Len(syms) + 1 \/ ev.a > Len(isets) THEN acc \cup {"C01: a set was placed beyond the end of the parser list"}
       ELSE LET u == SubSeq(syms, 1, ev.a - 1) \o <<ev.f>>
                prev == SubSeq(isets, 1, ev.a)
                ideal == Closure(A, N, Scan(A, prev[ev.a], ev.f), ev.a, prev)
                got == ItemsOf(ev)
                bad == ~(got \subseteq ideal)
            IN Replay(A, N, evs, i + 1, IF ev.k = 1 THEN u ELSE syms, IF ev.k = 1 THEN Append(prev, ideal) ELSE isets,
                      acc \cup (IF bad THEN {IF ev.k = 2 THEN "C09: the fresh re-computation of a reused set holds an item that is not a valid Earley item"
                                                       ELSE IF ev.c = 1 THEN "C09: a set reused from the cache holds an item that is not valid at this position"
                                                       ELSE "C01: a placed set holds an item that is not a valid Earley item"} ELSE {})
                          \cup (IF ~bad /\ got # ideal /\ ev.e = 0 /\ ~(\E x \in acc : SubSeq(x, 1, 4) = "DIAG")
                                THEN {"DIAG: set differs from the ideal set at lookahead 0 at event " \o ToString(i)} ELSE {}))

Problems(e) == (LET A == AugE(GramOfLine(e)) IN Replay(A, Nullable(A), e.ev, 1, <<>>, <<>>, {}))
               \cup (IF \E i \in DOMAIN e.ev : e.ev[i].k = 1 /\ ~PlBound(e.n + 1, e.ev[i].a + 1)
                     THEN {"DIAG: the parser list grew beyond 2 * (tokens + 1), the size pl_create allocates"} ELSE {})

Init == l = 1
Step == /\ l <= Len(TraceLines)
        /\ LET v == Problems(TraceLines[l]) IN
             (v # {} => PrintT(<<"REJ", l, TraceLines[l].id, v>>))
        /\ l' = l + 1
Spec == Init /\ [][Step]_l
TraceAccepted == /\ TLCGet("stats").diameter - 1 = Len(TraceLines)
                 /\ PrintT(<<"TRACE-DONE", Len(TraceLines)>>)
=============================================================================
