------------------------------ MODULE Witness ------------------------------
(***************************************************************************)
(* Test generation from a set-level deviation.  When a recorded Earley set *)
(* (lookahead level 0) is a proper subset of the ideal one, that alone     *)
(* violates no listed property - an implementation may drop items that can *)
(* never matter.  This machine searches for a continuation on which it     *)
(* DOES matter: it runs the ideal recognizer and a recognizer whose set at *)
(* the deviating position is the recorded one, in lock-step over all       *)
(* suffixes up to a bound, and prints every suffix the ideal one accepts   *)
(* and the other one does not.  The suffixes are then parsed by the real   *)
(* library and judged like any other input (RecTrace, kind recog): only a  *)
(* wrong outcome of the library is reported.                               *)
(* Cases come from the ndjson file named by TRACE: grammar, the symbols    *)
(* shifted so far, the recorded set as <<rule, dot, origin>> items, the    *)
(* alphabet.                                                               *)
(***************************************************************************)
EXTENDS Earley, Json, IOUtils

CONSTANT MaxSuffix
VARIABLES ci, ideal, defi, suf

Cases == ndJsonDeserialize(IOEnv.TRACE)
GramOfCase(e) == [T |-> {e.terms[i] : i \in DOMAIN e.terms} \cup {ErrName}, rules |-> e.rules]
AC(c) == AugE(GramOfCase(Cases[c]))
Dead == <<>>

WInit ==
  /\ ci \in DOMAIN Cases
  /\ LET e == Cases[ci] A == AC(ci) N == Nullable(A)
         sets == SetsFrom(A, N, e.syms, <<Closure(A, N, StartItems(A), 0, <<>>)>>)
     IN /\ ideal = sets
        /\ defi = [sets EXCEPT ![Len(e.syms) + 1] = {<<e.got[i][1], e.got[i][2], e.got[i][3]>> : i \in DOMAIN e.got}]
  /\ suf = <<>>

StepOf(A, N, sets, t) ==
  IF sets = Dead THEN Dead
  ELSE LET k == Len(sets) sc == Scan(A, sets[k], t) IN
       IF sc = {} THEN Dead ELSE Append(sets, Closure(A, N, sc, k, sets))

WNext ==
  /\ Len(suf) < MaxSuffix
  /\ \E t \in {Cases[ci].alphabet[i] : i \in DOMAIN Cases[ci].alphabet} :
       LET A == AC(ci) N == Nullable(A) nx == StepOf(A, N, ideal, t) IN
       /\ nx # Dead
       /\ ideal' = nx
       /\ defi' = StepOf(A, N, defi, t)
       /\ suf' = Append(suf, t)
  /\ UNCHANGED ci
WSpec == WInit /\ [][WNext]_<<ci, ideal, defi, suf>>

AcceptsEof(A, N, sets) ==
  sets # Dead /\ LET nx == StepOf(A, N, sets, EOF) IN nx # Dead /\ \E it \in nx[Len(nx)] : it[1] = 0 /\ it[2] = 2 /\ it[3] = 0

(* always TRUE; prints the witnesses *)
EmitWitness ==
  LET A == AC(ci) N == Nullable(A) IN
  (AcceptsEof(A, N, ideal) /\ ~AcceptsEof(A, N, defi)) => PrintT(<<"VEC", ToJson([id |-> Cases[ci].id, suf |-> suf])>>)
=============================================================================
