------------------------------- MODULE Look2 -------------------------------
(***************************************************************************)
(* Dynamic lookahead (yaep_set_lookahead_level 2) as a state machine, run  *)
(* in lock-step with the unpruned machine of RelSets.                      *)
(*                                                                         *)
(* At level 2 a situation carries a CONTEXT, a set of terminals: what may  *)
(* follow the rule's left-hand side at this place (sit->context, an index  *)
(* into the grammar's table of terminal sets).  A situation is             *)
(* <<rule, dot, distance, context>>.                                       *)
(*  - the start situations of the first set have the empty context;        *)
(*  - scanning, completing and advancing over a nullable symbol keep the   *)
(*    context of the situation they advance;                               *)
(*  - a predicted situation (and its advances inside the set) gets the     *)
(*    union, over all situations of the set whose dot is before its        *)
(*    left-hand side, of the lookahead of that situation after the shift   *)
(*    (expand_new_start_set iterates this to a fixed point; there is one   *)
(*    predicted situation per (rule, dot), with the merged context);       *)
(*  - lookahead(sit) = FIRST(tail), plus the context if the tail can       *)
(*    derive the empty string (sit_set_lookahead);                         *)
(*  - a scanned or completed situation survives if its lookahead contains  *)
(*    the next token or `error'.                                           *)
(* Look2Sound: as LookSound - same transitions, same acceptance, and the   *)
(* pruned sets, contexts forgotten, are subsets of the full ones.          *)
(***************************************************************************)
EXTENDS RelSets

CONSTANTS GrammarsC, TermsC, MaxPl

VARIABLES gl, full, prun, toks, nextt

AL == AugE(Gram(GrammarsC[gl]))
NoLook == -99

RECURSIVE TailFirst2(_, _, _, _, _)
TailFirst2(A, N, F, alpha, k) ==
  IF k > Len(alpha) THEN {}
  ELSE LET s == alpha[k] IN
       (IF IsT(A, s) THEN {s} ELSE F[s]) \cup (IF s \in N THEN TailFirst2(A, N, F, alpha, k + 1) ELSE {})

TailNull2(A, N, r, d) == \A q \in (d + 1)..Len(RhsR(A, r)) : RhsR(A, r)[q] \in N

(* lookahead of rule r with the dot at d under context ctx *)
LA2(A, N, F, r, d, ctx) == TailFirst2(A, N, F, RhsR(A, r), d + 1) \cup (IF TailNull2(A, N, r, d) THEN ctx ELSE {})

Keep2(A, N, F, x, la) == la = NoLook \/ la \in LA2(A, N, F, x[1], x[2], x[4]) \/ ErrName \in LA2(A, N, F, x[1], x[2], x[4])

(* ---- all situations of a set from its start situations S (4-tuples) ---- *)
(* non-start situations with distances inherited from start situations (advances over nullable symbols) *)
RECURSIVE Derived2(_, _, _)
Derived2(A, N, S) ==
  LET S2 == S \cup {<<x[1], x[2] + 1, x[3], x[4]>> :
                      x \in {x \in S : x[2] < Len(RhsR(A, x[1])) /\ RhsR(A, x[1])[x[2] + 1] \in N}}
  IN IF S2 = S THEN S ELSE Derived2(A, N, S2)

(* the (rule, dot) pairs of the predicted situations and their advances inside the set *)
RECURSIVE PredPairs(_, _, _, _)
PredPairs(A, N, base, P) ==
  LET syms == {RhsR(A, x[1])[x[2] + 1] : x \in {x \in base : x[2] < Len(RhsR(A, x[1]))}}
              \cup {RhsR(A, p[1])[p[2] + 1] : p \in {p \in P : p[2] < Len(RhsR(A, p[1]))}}
      P2 == P \cup UNION {{<<r - 1, 0>> : r \in RulesOf(A, X)} : X \in {s \in syms : ~IsT(A, s)}}
              \cup {<<p[1], p[2] + 1>> : p \in {p \in P : p[2] < Len(RhsR(A, p[1])) /\ RhsR(A, p[1])[p[2] + 1] \in N}}
  IN IF P2 = P THEN P ELSE PredPairs(A, N, base, P2)

(* contexts of the predicted pairs: least fixed point of the merge described above *)
RECURSIVE Contexts(_, _, _, _, _, _)
Contexts(A, N, F, base, P, C) ==
  LET all == base \cup {<<p[1], p[2], 0, C[p]>> : p \in P}
      C2 == [p \in P |->
               C[p] \cup UNION {LA2(A, N, F, y[1], y[2] + 1, y[4]) :
                                y \in {y \in all : y[2] < Len(RhsR(A, y[1])) /\ RhsR(A, y[1])[y[2] + 1] = LhsR(A, p[1])}}]
  IN IF C2 = C THEN C ELSE Contexts(A, N, F, base, P, C2)

Full2(A, N, F, S) ==
  LET base == Derived2(A, N, S)
      P == PredPairs(A, N, base, {})
      C == Contexts(A, N, F, base, P, [p \in P |-> {}])
  IN base \cup {<<p[1], p[2], 0, C[p]>> : p \in P}

Scanned2(A, N, F, S, t) ==
  {<<x[1], x[2] + 1, x[3] + 1, x[4]>> :
      x \in {x \in Full2(A, N, F, S) : x[2] < Len(RhsR(A, x[1])) /\ RhsR(A, x[1])[x[2] + 1] = t}}

Complete2Step(A, N, F, p, S, la) ==
  LET n == Len(p) IN
  S \cup UNION {IF TailNull2(A, N, x[1], x[2]) /\ x[3] >= 1 /\ x[3] <= n
                THEN LET O == Full2(A, N, F, p[n - x[3] + 1]) IN
                     {z \in {<<y[1], y[2] + 1, y[3] + x[3], y[4]>> :
                               y \in {y \in O : y[2] < Len(RhsR(A, y[1])) /\ RhsR(A, y[1])[y[2] + 1] = LhsR(A, x[1])}}
                        : Keep2(A, N, F, z, la)}
                ELSE {}
                : x \in S}
RECURSIVE Complete2(_, _, _, _, _, _)
Complete2(A, N, F, p, S, la) ==
  LET S2 == Complete2Step(A, N, F, p, S, la) IN IF S2 = S THEN S ELSE Complete2(A, N, F, p, S2, la)

Build2(A, N, F, p, t, la) ==
  Complete2(A, N, F, p, {z \in Scanned2(A, N, F, p[Len(p)], t) : Keep2(A, N, F, z, la)}, la)

StartSet2(A) == {<<r - 1, 0, 0, {}>> : r \in RulesOf(A, AX)}
Forget(S) == {<<x[1], x[2], x[3]>> : x \in S}

HasTr(A, N, S, t) == Scanned(A, N, S, t) # {}
HasTr2(A, N, F, S, t) == Scanned2(A, N, F, S, t) # {}
Acc(S) == \E x \in S : x[1] = 0 /\ x[2] = 2

Init2 == /\ gl \in DOMAIN GrammarsC
         /\ full = <<StartSet(AL)>> /\ prun = <<StartSet2(AL)>>
         /\ toks = <<>>
         /\ nextt \in TermsC \cup {EOF}

Shift2(nn) ==
  /\ Len(full) < MaxPl /\ nextt # EOF
  /\ LET A == AL N == Nullable(A) F == First(A) IN
       /\ HasTr(A, N, full[Len(full)], nextt)
       /\ HasTr2(A, N, F, prun[Len(prun)], nextt)
       /\ full' = Append(full, Build(A, N, full, nextt))
       /\ prun' = Append(prun, Build2(A, N, F, prun, nextt, nn))
  /\ toks' = Append(toks, nextt)
  /\ nextt' = nn
  /\ UNCHANGED gl

Next2 == \E nn \in TermsC \cup {EOF} : Shift2(nn)
Spec2 == Init2 /\ [][Next2]_<<gl, full, prun, toks, nextt>>

Look2Sound ==
  LET A == AL N == Nullable(A) F == First(A) IN
  /\ \A k \in DOMAIN prun : Forget(prun[k]) \subseteq full[k]
  /\ HasTr2(A, N, F, prun[Len(prun)], nextt) <=> HasTr(A, N, full[Len(full)], nextt)
  /\ nextt = EOF /\ HasTr(A, N, full[Len(full)], EOF)
       => (Acc(Build2(A, N, F, prun, EOF, NoLook)) <=> Acc(Build(A, N, full, EOF)))

(* a context never promises more than FOLLOW does: level 2 prunes at least what level 1 prunes *)
ContextWithinFollow ==
  LET A == AL N == Nullable(A) F == First(A) W == Follow(A) IN
  \A k \in DOMAIN prun : \A x \in Full2(A, N, F, prun[k]) : x[1] # 0 => x[4] \subseteq W[LhsR(A, x[1])]

(* vacuity probes, expected to be violated: pruning removes situations; some context is smaller than FOLLOW *)
NeverPrunes2 == \A k \in DOMAIN prun : Forget(prun[k]) = full[k]
ContextIsFollow ==
  LET A == AL N == Nullable(A) F == First(A) W == Follow(A) IN
  \A k \in DOMAIN prun : \A x \in Full2(A, N, F, prun[k]) : x[1] # 0 => x[4] = W[LhsR(A, x[1])]
=============================================================================
