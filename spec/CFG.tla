------------------------------- MODULE CFG -------------------------------
(***************************************************************************)
(* Raw grammar definitions as yaep_read_grammar's callbacks deliver them,  *)
(* the documented defects (error codes 4..16 of yaep.h) defined from first *)
(* principles, and the basic grammar analyses (nullable, productive,       *)
(* reachable, loops, FIRST, FOLLOW).  Nothing here refers to Earley's      *)
(* algorithm or to any data structure of the implementation.               *)
(*                                                                         *)
(* Names are integers (the harness maps them to strings):                  *)
(*    0  = "error"   -1 = "$eof"   -2 = "$S"   1.. = ordinary identifiers  *)
(* A raw definition is                                                     *)
(*   [terms |-> Seq([n |-> name, c |-> code]),                             *)
(*    rules |-> Seq([l |-> name, r |-> Seq(name), an |-> 0 | anode id,     *)
(*                   c |-> cost, t |-> Seq(Int)])]                          *)
(* In t an element k >= 1 means "translation of rhs symbol number k"        *)
(* (1-based; the C interface is 0-based), 0 means the NIL marker            *)
(* (YAEP_NIL_TRANSLATION_NUMBER); an = 0 means "no abstract node".          *)
(***************************************************************************)
EXTENDS Integers, Sequences, FiniteSets, TLC

ErrName == 0
EofName == -1
AxiomName == -2

Range(s) == {s[i] : i \in DOMAIN s}

Min(S) == CHOOSE x \in S : \A y \in S : x <= y
Max(S) == CHOOSE x \in S : \A y \in S : x >= y

(* ------------------------------------------------------------------ *)
(* Symbols of a raw definition                                          *)
(* ------------------------------------------------------------------ *)
TermNames(raw) == {raw.terms[i].n : i \in DOMAIN raw.terms} \cup {ErrName}

RuleSyms(raw) == UNION {{raw.rules[k].l} \cup Range(raw.rules[k].r) : k \in DOMAIN raw.rules}

NontermNames(raw) == RuleSyms(raw) \ TermNames(raw)

(* The grammar the parser works with: terminal set, rules, start symbol. *)
Gram(raw) == [T |-> TermNames(raw), rules |-> raw.rules]

Start(G) == G.rules[1].l
IsT(G, s) == s \in G.T
Syms(G) == UNION {{G.rules[k].l} \cup Range(G.rules[k].r) : k \in DOMAIN G.rules}
NT(G) == Syms(G) \ G.T
RulesOf(G, X) == {k \in DOMAIN G.rules : G.rules[k].l = X}

(* ------------------------------------------------------------------ *)
(* Fixed points                                                         *)
(* ------------------------------------------------------------------ *)
RECURSIVE NullableFrom(_, _)
NullableFrom(G, S) ==
  LET S2 == S \cup {G.rules[k].l : k \in {k \in DOMAIN G.rules : Range(G.rules[k].r) \subseteq S}}
  IN IF S2 = S THEN S ELSE NullableFrom(G, S2)
Nullable(G) == NullableFrom(G, {})

(* Symbols deriving at least one terminal string (terminals, incl. error, do). *)
RECURSIVE ProductiveFrom(_, _)
ProductiveFrom(G, S) ==
  LET S2 == S \cup {G.rules[k].l : k \in {k \in DOMAIN G.rules : Range(G.rules[k].r) \subseteq S}}
  IN IF S2 = S THEN S ELSE ProductiveFrom(G, S2)
Productive(G) == ProductiveFrom(G, G.T)

RECURSIVE ReachableFrom(_, _)
ReachableFrom(G, S) ==
  LET S2 == S \cup UNION {Range(G.rules[k].r) : k \in {k \in DOMAIN G.rules : G.rules[k].l \in S}}
  IN IF S2 = S THEN S ELSE ReachableFrom(G, S2)
Reachable(G) == ReachableFrom(G, {Start(G)})

(* X directly unit-derives Y: X -> alpha Y beta with alpha, beta =>* empty. *)
UnitPairs(G) ==
  LET N == Nullable(G) IN
  UNION {{<<G.rules[k].l, G.rules[k].r[p]>> :
            p \in {p \in 1..Len(G.rules[k].r) :
                     /\ ~IsT(G, G.rules[k].r[p])
                     /\ \A q \in 1..Len(G.rules[k].r) : q # p => G.rules[k].r[q] \in N}}
         : k \in DOMAIN G.rules}

RECURSIVE TransClosure(_)
TransClosure(R) ==
  LET R3 == R \cup UNION {{<<a[1], b[2]>> : b \in {b \in R : b[1] = a[2]}} : a \in R}
  IN IF R3 = R THEN R ELSE TransClosure(R3)

(* Nonterminals that can derive themselves in one or more steps. *)
Loops(G) == LET C == TransClosure(UnitPairs(G)) IN {X \in NT(G) : <<X, X>> \in C}

(* ------------------------------------------------------------------ *)
(* Documented defects (yaep.h codes)                                    *)
(* ------------------------------------------------------------------ *)
FIXED_NAME_USAGE == 4
REPEATED_TERM_DECL == 5
NEGATIVE_TERM_CODE == 6
REPEATED_TERM_CODE == 7
NO_RULES == 8
TERM_IN_RULE_LHS == 9
INCORRECT_TRANSLATION == 10
NEGATIVE_COST == 11
INCORRECT_SYMBOL_NUMBER == 12
REPEATED_SYMBOL_NUMBER == 13
UNACCESSIBLE_NONTERM == 14
NONTERM_DERIVATION == 15
LOOP_NONTERM == 16

Reserved == {ErrName, EofName, AxiomName}

(* Defects that can be seen without analysing derivations. *)
LocalDefects(raw) ==
  LET tn == raw.terms  rl == raw.rules IN
     {NEGATIVE_TERM_CODE : i \in {i \in DOMAIN tn : tn[i].c < 0}}
  \cup {REPEATED_TERM_DECL : p \in {p \in (DOMAIN tn) \X (DOMAIN tn) : p[1] < p[2] /\ tn[p[1]].n = tn[p[2]].n}}
  \cup {REPEATED_TERM_CODE : p \in {p \in (DOMAIN tn) \X (DOMAIN tn) : p[1] < p[2] /\ tn[p[1]].c = tn[p[2]].c}}
  \cup {FIXED_NAME_USAGE : i \in {i \in DOMAIN tn : tn[i].n \in Reserved}}
  \cup {FIXED_NAME_USAGE : k \in {k \in DOMAIN rl :
                 ({rl[k].l} \cup Range(rl[k].r)) \cap {EofName, AxiomName} # {}}}
  \cup (IF Len(rl) = 0 THEN {NO_RULES} ELSE {})
  \cup {TERM_IN_RULE_LHS : k \in {k \in DOMAIN rl : rl[k].l \in TermNames(raw)}}
  \cup {INCORRECT_TRANSLATION : k \in {k \in DOMAIN rl : rl[k].an = 0 /\ Len(rl[k].t) >= 2}}
  \cup {NEGATIVE_COST : k \in {k \in DOMAIN rl : rl[k].an # 0 /\ rl[k].c < 0}}
  \cup {INCORRECT_SYMBOL_NUMBER : k \in {k \in DOMAIN rl :
                 \E i \in DOMAIN rl[k].t : rl[k].t[i] > Len(rl[k].r)}}
  \cup {REPEATED_SYMBOL_NUMBER : k \in {k \in DOMAIN rl :
                 \E i, j \in DOMAIN rl[k].t : i < j /\ rl[k].t[i] = rl[k].t[j] /\ rl[k].t[i] # 0}}

(* Defects of the derivation structure; only meaningful when the rule list is
   non-empty and no left-hand side is a terminal. *)
DeepDefects(raw, strict) ==
  IF Len(raw.rules) = 0 \/ \E k \in DOMAIN raw.rules : raw.rules[k].l \in TermNames(raw)
  THEN {}
  ELSE LET G == Gram(raw)
           P == Productive(G)
           R == Reachable(G)
       IN   (IF Loops(G) # {} THEN {LOOP_NONTERM} ELSE {})
       \cup (IF strict THEN (IF NT(G) \subseteq P THEN {} ELSE {NONTERM_DERIVATION})
                       ELSE (IF Start(G) \in P THEN {} ELSE {NONTERM_DERIVATION}))
       \cup (IF strict /\ ~(NT(G) \subseteq R) THEN {UNACCESSIBLE_NONTERM} ELSE {})

Defects(raw, strict) == LocalDefects(raw) \cup DeepDefects(raw, strict)

Accepted(raw, strict) == Defects(raw, strict) = {}

(* ------------------------------------------------------------------ *)
(* FIRST / FOLLOW over terminals (used by the mechanism layer).         *)
(* First(G) : nonterminal -> set of terminals                            *)
(* ------------------------------------------------------------------ *)
RECURSIVE FirstOfSeq(_, _, _, _, _)
FirstOfSeq(G, N, F, alpha, k) ==
  IF k > Len(alpha) THEN {}
  ELSE LET s == alpha[k] IN
       IF IsT(G, s) THEN {s}
       ELSE F[s] \cup (IF s \in N THEN FirstOfSeq(G, N, F, alpha, k + 1) ELSE {})

RECURSIVE FirstFrom(_, _, _)
FirstFrom(G, N, F) ==
  LET F2 == [X \in NT(G) |-> F[X] \cup UNION {FirstOfSeq(G, N, F, G.rules[k].r, 1) : k \in RulesOf(G, X)}]
  IN IF F2 = F THEN F ELSE FirstFrom(G, N, F2)
First(G) == FirstFrom(G, Nullable(G), [X \in NT(G) |-> {}])

SeqNullable(G, N, alpha, k) == \A q \in k..Len(alpha) : alpha[q] \in N

RECURSIVE FollowFrom(_, _, _, _)
FollowFrom(G, N, F, W) ==
  LET W2 == [X \in NT(G) |->
               W[X] \cup UNION {UNION {FirstOfSeq(G, N, F, G.rules[k].r, p + 1)
                                        \cup (IF SeqNullable(G, N, G.rules[k].r, p + 1)
                                              THEN W[G.rules[k].l] ELSE {})
                                       : p \in {p \in 1..Len(G.rules[k].r) : G.rules[k].r[p] = X}}
                                : k \in DOMAIN G.rules}]
  IN IF W2 = W THEN W ELSE FollowFrom(G, N, F, W2)
Follow(G) == FollowFrom(G, Nullable(G), First(G), [X \in NT(G) |-> {}])

=============================================================================
