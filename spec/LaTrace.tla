------------------------------ MODULE LaTrace ------------------------------
(***************************************************************************)
(* Trace validation for C09(a): every line of the ndjson file is a group   *)
(* of recorded yaep_parse outcomes for ONE grammar, input and set of       *)
(* result-selecting flags (one_parse, cost, recovery, recovery_match),     *)
(* differing only in the lookahead level (including out-of-range values)   *)
(* and the debug level.  The specification of yaep_parse (ParseTrace) does *)
(* not mention those two settings at all, so a group is a behaviour of the *)
(* specification only if all its outcomes are the same observation:        *)
(* return code, callbacks with their arguments, ambiguity flag, the set of *)
(* denoted trees with their costs (and the structure of the returned DAG,  *)
(* by its hash).                                                           *)
(***************************************************************************)
EXTENDS Integers, Sequences, FiniteSets, TLC, Json, IOUtils

VARIABLES l

Groups == ndJsonDeserialize(IOEnv.TRACE)

Rng(s) == {s[i] : i \in DOMAIN s}
Obs(o) == <<o.rc, o.root, o.amb, o.calls, Rng(o.trees), o.over, o.thash>>

Same(g) == \A i, j \in DOMAIN g.outs : Obs(g.outs[i]) = Obs(g.outs[j])

Init == l = 1
Step == /\ l <= Len(Groups)
        /\ (~Same(Groups[l]) =>
              PrintT(<<"REJ", l, Groups[l].id,
                       {"C09: outcome depends on the lookahead or debug level"}>>))
        /\ l' = l + 1
Spec == Init /\ [][Step]_l

TraceAccepted == /\ TLCGet("stats").diameter - 1 = Len(Groups)
                 /\ PrintT(<<"TRACE-DONE", Len(Groups)>>)
=============================================================================
