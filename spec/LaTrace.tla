------------------------------ MODULE LaTrace ------------------------------
(***************************************************************************)
(* Trace validation for C09(a): every line of the ndjson file is a group   *)
(* of recorded yaep_parse outcomes for ONE grammar, input and set of       *)
(* result-selecting flags (one_parse, cost, recovery, recovery_match),     *)
(* differing only in the lookahead level (including out-of-range values)   *)
(* and the debug level.  The specification of yaep_parse (ParseTrace) does *)
(* not mention those two settings at all, so a group is a behaviour of the *)
(* specification only if all its outcomes are the same observation:        *)
(* return code, callbacks with their arguments, ambiguity flag, the set of *)
(* denoted trees with their costs (and the structure of the returned DAG,  *)
(* by its hash).                                                           *)
(***************************************************************************)
EXTENDS Integers, Sequences, FiniteSets, TLC, Json, IOUtils

VARIABLES l

Groups == ndJsonDeserialize(IOEnv.TRACE)

(* An outcome carries the settings that must not matter (lookahead and debug level for C09, the library -
   C or C++ - for C16) and the observation `obs' (return code, callbacks, ambiguity flag, sorted list of
   denoted trees with costs, DAG hash; for definitions: return code and error message). *)
Same(g) == \A i, j \in DOMAIN g.outs : g.outs[i].obs = g.outs[j].obs

Init == l = 1
Step == /\ l <= Len(Groups)
        /\ (~Same(Groups[l]) =>
              PrintT(<<"REJ", l, Groups[l].id,
                       {IF Groups[l].kind = "C16" THEN "C16: the C++ interface and the C interface disagree"
                        ELSE "C09: outcome depends on the lookahead or debug level"}>>))
        /\ l' = l + 1
Spec == Init /\ [][Step]_l

TraceAccepted == /\ TLCGet("stats").diameter - 1 = Len(Groups)
                 /\ PrintT(<<"TRACE-DONE", Len(Groups)>>)
=============================================================================
