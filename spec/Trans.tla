------------------------------ MODULE Trans ------------------------------
(***************************************************************************)
(* The documented syntax-directed translation, declaratively: the set of   *)
(* translations of all derivations of an input, their costs and the        *)
(* minimal ones.  Oracle for C02, C03, C04, C05, C07.                       *)
(*                                                                         *)
(* Tree values                                                             *)
(*    <<0>>                 the NIL node                                    *)
(*    <<1>>                 the ERROR node (translation of `error')         *)
(*    <<2, name, pos>>      TERM: terminal name, 0-based token number       *)
(*    <<3, an, c, kids>>    ANODE: abstract node name id, the rule's own    *)
(*                          cost, sequence of children                      *)
(* `pos' is a sequence giving the original token number of every element   *)
(* of W (the identity for a plain input; a repaired input keeps the         *)
(* numbers of the surviving tokens).                                        *)
(***************************************************************************)
EXTENDS Deriv

NilT == <<0>>
ErrT == <<1>>
Leaf(s, p) == IF s = ErrName THEN ErrT ELSE <<2, s, p>>

IdPos(W) == [i \in 1..Len(W) |-> i - 1]

Needed(rl) == Range(rl.t) \ {0}

(* Translation of one rule application from the translations of its rhs. *)
RuleTr(rl, kids) ==
  IF rl.an # 0
  THEN <<3, rl.an, rl.c, [q \in 1..Len(rl.t) |-> IF rl.t[q] = 0 THEN NilT ELSE kids[rl.t[q]]]>>
  ELSE IF Len(rl.t) = 0 \/ rl.t[1] = 0 THEN NilT ELSE kids[rl.t[1]]

(* All sequences of translations of rl.r[k..] deriving W[i+1..j]; symbols whose
   translation the rule drops are represented by NilT (only derivability counts). *)
RECURSIVE KidsFrom(_, _, _, _, _, _, _, _)
KidsFrom(G, W, pos, T, rl, k, i, j) ==
  IF k > Len(rl.r) THEN (IF i = j THEN {<<>>} ELSE {})
  ELSE LET s == rl.r[k] IN
       IF IsT(G, s)
       THEN IF i < j /\ W[i + 1] = s
            THEN {<<Leaf(s, pos[i + 1])>> \o rest : rest \in KidsFrom(G, W, pos, T, rl, k + 1, i + 1, j)}
            ELSE {}
       ELSE UNION {LET here == IF k \in Needed(rl) THEN T[<<s, i, m>>]
                               ELSE IF T[<<s, i, m>>] = {} THEN {} ELSE {NilT}
                   IN IF here = {} THEN {}
                      ELSE {<<h>> \o rest : h \in here, rest \in KidsFrom(G, W, pos, T, rl, k + 1, m, j)}
                   : m \in i..j}

RECURSIVE TransLfp(_, _, _, _)
TransLfp(G, W, pos, T) ==
  LET T2 == [x \in DOMAIN T |->
               UNION {{RuleTr(G.rules[r], kids) : kids \in KidsFrom(G, W, pos, T, G.rules[r], 1, x[2], x[3])}
                      : r \in RulesOf(G, x[1])}]
  IN IF T2 = T THEN T ELSE TransLfp(G, W, pos, T2)

TransTable(G, W, pos) == TransLfp(G, W, pos, [x \in SpanDom(G, W) |-> {}])

(* The set of translations of all derivations of W from the start symbol. *)
TranslationsP(G, W, pos) == TransTable(G, W, pos)[<<Start(G), 0, Len(W)>>]
Translations(G, W) == TranslationsP(G, W, IdPos(W))

RECURSIVE Cost(_)
RECURSIVE CostSeq(_, _)
CostSeq(kids, k) == IF k > Len(kids) THEN 0 ELSE Cost(kids[k]) + CostSeq(kids, k + 1)
Cost(t) == IF t[1] = 3 THEN t[3] + CostSeq(t[4], 1) ELSE 0

MinCostOf(S) == Min({Cost(t) : t \in S})
MinOf(S) == IF S = {} THEN {} ELSE LET m == MinCostOf(S) IN {t \in S : Cost(t) = m}

MinTranslations(G, W) == MinOf(Translations(G, W))

=============================================================================
