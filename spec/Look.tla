-------------------------------- MODULE Look --------------------------------
(***************************************************************************)
(* Static lookahead (yaep_set_lookahead_level 1) as a state machine, in    *)
(* the set representation of Cache.tla (start situations with relative     *)
(* distances), run in lock-step with the unpruned machine.                 *)
(*                                                                         *)
(* build_new_set keeps a situation produced by scanning or by completing   *)
(* only if its lookahead set contains the next token or `error'; the       *)
(* lookahead of a situation is FIRST of the rule's tail, plus FOLLOW of    *)
(* the left-hand side when the tail can derive the empty string            *)
(* (sit_set_lookahead; FIRST/FOLLOW as create_first_follow_sets computes   *)
(* them over the augmented grammar, `error' and the end marker being       *)
(* ordinary terminals there).  Situations added by prediction or by        *)
(* advancing over a nullable symbol are never pruned.                      *)
(*                                                                         *)
(* LookSound: pruning never changes what the caller can observe without    *)
(* recovery - the pruned list has a transition on the next token exactly   *)
(* when the full one has (same error token), accepts exactly when the full *)
(* one does, and every pruned set is a subset of the full set.             *)
(***************************************************************************)
EXTENDS RelSets

CONSTANTS GrammarsC, TermsC, MaxPl

VARIABLES gl, full, prun, toks, nextt     \* grammar index, the two parser lists, tokens shifted, pending next token

AL == AugE(Gram(GrammarsC[gl]))

RECURSIVE TailFirstL(_, _, _, _, _)
TailFirstL(A, N, F, alpha, k) ==
  IF k > Len(alpha) THEN {}
  ELSE LET s == alpha[k] IN
       (IF IsT(A, s) THEN {s} ELSE F[s]) \cup (IF s \in N THEN TailFirstL(A, N, F, alpha, k + 1) ELSE {})

LookaheadOf(A, N, F, W, x) ==
  LET rhs == RhsR(A, x[1]) IN
  TailFirstL(A, N, F, rhs, x[2] + 1) \cup (IF TailNull(A, N, x) THEN W[LhsR(A, x[1])] ELSE {})

NoLook == -99      \* shifting the end marker itself: there is no next token and nothing is pruned
KeepL(A, N, F, W, x, la) == la = NoLook \/ la \in LookaheadOf(A, N, F, W, x) \/ ErrName \in LookaheadOf(A, N, F, W, x)

PCompleteStep(A, N, F, W, p, S, la) ==
  LET n == Len(p) IN
  S \cup UNION {IF TailNull(A, N, x) /\ x[3] >= 1 /\ x[3] <= n
                THEN LET O == FullC(A, N, p[n - x[3] + 1]) IN
                     {z \in {<<y[1], y[2] + 1, y[3] + x[3]>> :
                               y \in {y \in O : y[2] < Len(RhsR(A, y[1])) /\ RhsR(A, y[1])[y[2] + 1] = LhsR(A, x[1])}}
                        : KeepL(A, N, F, W, z, la)}
                ELSE {}
                : x \in S}
RECURSIVE PCompleteC(_, _, _, _, _, _, _)
PCompleteC(A, N, F, W, p, S, la) ==
  LET S2 == PCompleteStep(A, N, F, W, p, S, la) IN IF S2 = S THEN S ELSE PCompleteC(A, N, F, W, p, S2, la)

PBuild(A, N, F, W, p, t, la) ==
  PCompleteC(A, N, F, W, p, {z \in Scanned(A, N, p[Len(p)], t) : KeepL(A, N, F, W, z, la)}, la)

HasTransition(A, N, S, t) == Scanned(A, N, S, t) # {}
AcceptingR(S) == \E x \in S : x[1] = 0 /\ x[2] = 2          \* AX -> Start EOF .

LInit == /\ gl \in DOMAIN GrammarsC
         /\ full = <<StartSet(AL)>> /\ prun = <<StartSet(AL)>>
         /\ toks = <<>>
         /\ nextt \in TermsC \cup {EOF}

(* shift the pending token in both machines; choose the token after it *)
LShift(nn) ==
  /\ Len(full) < MaxPl /\ nextt # EOF
  /\ LET A == AL N == Nullable(A) F == First(A) W == Follow(A) IN
       /\ HasTransition(A, N, full[Len(full)], nextt)
       /\ HasTransition(A, N, prun[Len(prun)], nextt)
       /\ full' = Append(full, Build(A, N, full, nextt))
       /\ prun' = Append(prun, PBuild(A, N, F, W, prun, nextt, nn))
  /\ toks' = Append(toks, nextt)
  /\ nextt' = nn
  /\ UNCHANGED gl

LNext == \E nn \in TermsC \cup {EOF} : LShift(nn)
LSpec == LInit /\ [][LNext]_<<gl, full, prun, toks, nextt>>

LookSound ==
  LET A == AL N == Nullable(A) F == First(A) W == Follow(A) IN
  /\ \A k \in DOMAIN prun : prun[k] \subseteq full[k]
  /\ HasTransition(A, N, prun[Len(prun)], nextt) <=> HasTransition(A, N, full[Len(full)], nextt)
  /\ nextt = EOF /\ HasTransition(A, N, full[Len(full)], EOF)
       => (AcceptingR(PBuild(A, N, F, W, prun, EOF, NoLook)) <=> AcceptingR(Build(A, N, full, EOF)))
(* vacuity probe: expected to be violated (pruning does remove situations in the model) *)
NeverPrunes == \A k \in DOMAIN prun : prun[k] = full[k]
=============================================================================
