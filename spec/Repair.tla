------------------------------ MODULE Repair ------------------------------
(***************************************************************************)
(* Error repair, declaratively (oracle for C06, C07, C08).                 *)
(*                                                                         *)
(* Aug(G) is the grammar the recovery works with: `error' is an ordinary   *)
(* terminal and the axiom AX has the rules AX -> Start and AX -> error     *)
(* (the implicit rule that covers total loss).                             *)
(*                                                                         *)
(* A repair of W replaces disjoint, possibly empty, possibly adjacent      *)
(* segments of W by `error'.  Instead of enumerating repaired strings the  *)
(* module derives W directly with one extra move: an occurrence of `error' *)
(* in a rule may absorb any segment W[i+1..m]; the number of absorbed      *)
(* tokens is carried along.  RT[<<X,i,j,c>>] is the set of translations of *)
(* all derivations X =>* W[i+1..j] in which exactly c tokens are absorbed. *)
(***************************************************************************)
EXTENDS Trans

AX == AxiomName

Aug(G) == [T |-> G.T,
           rules |-> <<[l |-> AX, r |-> <<Start(G)>>, an |-> 0, c |-> 0, t |-> <<1>>]>>
                     \o G.rules
                     \o <<[l |-> AX, r |-> <<ErrName>>, an |-> 0, c |-> 0, t |-> <<>>]>>]

RDom(G, W) == {x \in NT(G) \X (0..Len(W)) \X (0..Len(W)) \X (0..Len(W)) :
                 x[2] <= x[3] /\ x[4] <= x[3] - x[2]}

(* Sequences of translations of rl.r[k..] deriving W[i+1..j] with c absorbed tokens. *)
RECURSIVE RKidsFrom(_, _, _, _, _, _, _, _)
RKidsFrom(G, W, T, rl, k, i, j, c) ==
  IF k > Len(rl.r) THEN (IF i = j /\ c = 0 THEN {<<>>} ELSE {})
  ELSE LET s == rl.r[k] IN
       IF s = ErrName
       THEN UNION {{<<ErrT>> \o rest : rest \in RKidsFrom(G, W, T, rl, k + 1, m, j, c - (m - i))}
                   : m \in {m \in i..j : m - i <= c}}
       ELSE IF IsT(G, s)
       THEN IF i < j /\ W[i + 1] = s
            THEN {<<Leaf(s, i)>> \o rest : rest \in RKidsFrom(G, W, T, rl, k + 1, i + 1, j, c)}
            ELSE {}
       ELSE UNION {UNION {LET here == IF k \in Needed(rl) THEN T[<<s, i, m, d>>]
                                      ELSE IF T[<<s, i, m, d>>] = {} THEN {} ELSE {NilT}
                          IN IF here = {} THEN {}
                             ELSE {<<h>> \o rest : h \in here,
                                                   rest \in RKidsFrom(G, W, T, rl, k + 1, m, j, c - d)}
                          : d \in 0..(IF c < m - i THEN c ELSE m - i)}
                   : m \in i..j}

RECURSIVE RLfp(_, _, _)
RLfp(G, W, T) ==
  LET T2 == [x \in DOMAIN T |->
               UNION {{RuleTr(G.rules[r], kids) : kids \in RKidsFrom(G, W, T, G.rules[r], 1, x[2], x[3], x[4])}
                      : r \in RulesOf(G, x[1])}]
  IN IF T2 = T THEN T ELSE RLfp(G, W, T2)

RepairTable(G, W) == LET A == Aug(G) IN RLfp(A, W, [x \in RDom(A, W) |-> {}])

(* Translations of all derivations of all repairs of W that ignore exactly c tokens. *)
RepairTranslations(RT, W, c) == IF c \in 0..Len(W) THEN RT[<<AX, 0, Len(W), c>>] ELSE {}

(* ------------------------------------------------------------------ *)
(* Single-segment repairs: W[1..a] error W[b+1..n] as an explicit input  *)
(* (names and original positions), for the "reported range" clause.      *)
(* ------------------------------------------------------------------ *)
OneSegW(W, a, b) == SubSeq(W, 1, a) \o <<ErrName>> \o SubSeq(W, b + 1, Len(W))
OneSegPos(W, a, b) == [i \in 1..(a + 1 + Len(W) - b) |-> IF i <= a THEN i - 1 ELSE IF i = a + 1 THEN a ELSE b + (i - a - 1) - 1]
OneSegTranslations(G, W, a, b) == TranslationsP(Aug(G), OneSegW(W, a, b), OneSegPos(W, a, b))

(* ------------------------------------------------------------------ *)
(* Simple recoveries for the first error (C08).  k = number of tokens    *)
(* consumed before the error token (the 0-based number of that token).   *)
(* A simple recovery goes back to p <= k where `error' can follow        *)
(* W[1..p], shifts `error', skips to q >= k, and then the next `match'   *)
(* tokens - end of input counts as a token - can be shifted.             *)
(* ------------------------------------------------------------------ *)
SimpleOk(A, W, p, q, match) ==
  LET n == Len(W)
      rest == n - q + 1                       \* remaining tokens including end of input
      u == SubSeq(W, 1, p) \o <<ErrName>>
  IN IF match >= rest
     THEN IsSentence(A, u \o SubSeq(W, q + 1, n))
     ELSE LET v == u \o SubSeq(W, q + 1, q + (IF match < 1 THEN 1 ELSE match)) IN Viable(A, v, Len(v))

SimpleRecoveryCosts(G, W, k, match) ==
  LET A == Aug(G) IN
  {q - p : p \in 0..k, q \in k..Len(W)} \cap
  {x[2] - x[1] : x \in {x \in (0..k) \X (k..Len(W)) : SimpleOk(A, W, x[1], x[2], match)}}

MinSimpleRecoveryCost(G, W, k, match) ==
  LET S == SimpleRecoveryCosts(G, W, k, match) IN IF S = {} THEN -1 ELSE Min(S)

=============================================================================
