------------------------------ MODULE MCEarley ------------------------------
(* Design check of the recognition mechanism (Earley.tla) against the declarative oracle (Deriv.tla) on
   every grammar of a small family (the enumerator of MCGram) and every input up to MaxLen. *)
EXTENDS MCGram, Earley

EarleyDesign ==
  LET raw == Raw(rules) IN
  (Len(rules) >= 1 /\ Defects(raw, FALSE) = {}) =>
    LET G == Gram(raw) IN
    \A w \in Inputs :
      /\ AcceptExact(G, w)
      /\ ItemsDeriveSpans(G, w)
      /\ (Defects(raw, TRUE) = {} => ErrorAtFirstOffending(G, w))

=============================================================================
