------------------------------ MODULE Member ------------------------------
(***************************************************************************)
(* Membership of a GIVEN tree in the set of translations (of the input or  *)
(* of its repairs) without enumerating that set: a least fixed point over  *)
(* (subtree, nonterminal, span, absorbed tokens).  This is what the trace  *)
(* validation of parse events uses; it terminates even when the set of     *)
(* translations of repairs is infinite (e.g.  S : error S  with `error'    *)
(* absorbing empty segments).                                              *)
(*                                                                         *)
(* absorb = TRUE : an occurrence of `error' in a rule absorbs any segment  *)
(*                 W[i+1..m] (repair semantics of module Repair);          *)
(* absorb = FALSE: `error' only matches a literal error token of W.        *)
(***************************************************************************)
EXTENDS Repair

AnyT == <<-1>>

RECURSIVE SubTrees(_)
SubTrees(t) == {t} \cup (IF t[1] = 3 THEN UNION {SubTrees(t[4][q]) : q \in DOMAIN t[4]} ELSE {})

(* ---------- recognition with absorption: spans <<X, i, j, c>> ---------- *)
RECURSIVE RMatch(_, _, _, _, _, _, _)
RMatch(G, W, Sp, absorb, alpha, k, i) ==      \* set of <<end, absorbed>>
  IF k > Len(alpha) THEN {<<i, 0>>}
  ELSE LET s == alpha[k] IN
       IF s = ErrName /\ absorb
       THEN UNION {{<<e[1], e[2] + (m - i)>> : e \in RMatch(G, W, Sp, absorb, alpha, k + 1, m)} : m \in i..Len(W)}
       ELSE IF IsT(G, s)
       THEN IF i < Len(W) /\ W[i + 1] = s THEN RMatch(G, W, Sp, absorb, alpha, k + 1, i + 1) ELSE {}
       ELSE UNION {{<<e[1], e[2] + x[4]>> : e \in RMatch(G, W, Sp, absorb, alpha, k + 1, x[3])}
                   : x \in {x \in Sp : x[1] = s /\ x[2] = i}}

RECURSIVE RSpanLfp(_, _, _, _)
RSpanLfp(G, W, absorb, Sp) ==
  LET S2 == Sp \cup UNION {UNION {{<<G.rules[r].l, i, e[1], e[2]>> : e \in RMatch(G, W, Sp, absorb, G.rules[r].r, 1, i)}
                                  : i \in 0..Len(W)}
                           : r \in DOMAIN G.rules}
  IN IF S2 = Sp THEN Sp ELSE RSpanLfp(G, W, absorb, S2)

RSpans(G, W, absorb) == RSpanLfp(G, W, absorb, {})

(* ---------- membership ---------- *)
(* The subtree that rhs position k of rule rl must translate to when the rule yields t. *)
Want(rl, t, k) ==
  IF rl.an # 0
  THEN IF \E q \in DOMAIN rl.t : rl.t[q] = k THEN t[4][CHOOSE q \in DOMAIN rl.t : rl.t[q] = k] ELSE AnyT
  ELSE IF Len(rl.t) >= 1 /\ rl.t[1] = k THEN t ELSE AnyT

Shape(rl, t) ==
  IF rl.an # 0
  THEN /\ t[1] = 3 /\ t[2] = rl.an /\ t[3] = rl.c /\ Len(t[4]) = Len(rl.t)
       /\ \A q \in DOMAIN rl.t : rl.t[q] = 0 => t[4][q] = NilT
  ELSE IF Len(rl.t) = 0 \/ rl.t[1] = 0 THEN t = NilT ELSE TRUE

(* lenient = TRUE ignores the token number carried by TERM nodes (used only to recognise the
   recorded finding that TERM attributes are taken from the parser-list index after a recovery). *)
LeafOk(want, s, p, lenient) ==
  IF lenient /\ s # ErrName THEN want[1] = 2 /\ want[2] = s ELSE want = Leaf(s, p)

RECURSIVE TSeq(_, _, _, _, _, _, _, _, _, _, _)
TSeq(G, W, pos, Sp, M, absorb, lenient, rl, t, k, i) ==     \* set of <<end, absorbed>>
  IF k > Len(rl.r) THEN {<<i, 0>>}
  ELSE LET s == rl.r[k]
           want == Want(rl, t, k)
       IN
       IF s = ErrName /\ absorb
       THEN IF want # AnyT /\ want # ErrT THEN {}
            ELSE UNION {{<<e[1], e[2] + (m - i)>> : e \in TSeq(G, W, pos, Sp, M, absorb, lenient, rl, t, k + 1, m)} : m \in i..Len(W)}
       ELSE IF IsT(G, s)
       THEN IF i < Len(W) /\ W[i + 1] = s /\ (want = AnyT \/ LeafOk(want, s, pos[i + 1], lenient))
            THEN TSeq(G, W, pos, Sp, M, absorb, lenient, rl, t, k + 1, i + 1) ELSE {}
       ELSE IF want = AnyT
       THEN UNION {{<<e[1], e[2] + x[4]>> : e \in TSeq(G, W, pos, Sp, M, absorb, lenient, rl, t, k + 1, x[3])}
                   : x \in {x \in Sp : x[1] = s /\ x[2] = i}}
       ELSE UNION {{<<e[1], e[2] + x[5]>> : e \in TSeq(G, W, pos, Sp, M, absorb, lenient, rl, t, k + 1, x[4])}
                   : x \in {x \in M : x[1] = want /\ x[2] = s /\ x[3] = i}}

RECURSIVE MemberLfp(_, _, _, _, _, _, _, _)
MemberLfp(G, W, pos, Sp, absorb, lenient, Sub, M) ==
  LET M2 == M \cup UNION {UNION {UNION {{<<t, G.rules[r].l, i, e[1], e[2]>>
                                          : e \in TSeq(G, W, pos, Sp, M, absorb, lenient, G.rules[r], t, 1, i)}
                                        : i \in 0..Len(W)}
                                 : r \in {r \in DOMAIN G.rules : Shape(G.rules[r], t)}}
                          : t \in Sub}
  IN IF M2 = M THEN M ELSE MemberLfp(G, W, pos, Sp, absorb, lenient, Sub, M2)

MemberTable(G, W, pos, absorb, lenient, tree) ==
  MemberLfp(G, W, pos, RSpans(G, W, absorb), absorb, lenient, SubTrees(tree), {})

(* tree is the translation of some derivation of W from the start symbol *)
IsTranslationP(G, W, pos, tree) == <<tree, Start(G), 0, Len(W), 0>> \in MemberTable(G, W, pos, FALSE, FALSE, tree)
IsTranslation(G, W, tree) == IsTranslationP(G, W, IdPos(W), tree)

(* tree is the translation of some derivation of some repair of W ignoring exactly c tokens *)
IsRepairTranslation(G, W, tree, c) ==
  <<tree, AX, 0, Len(W), c>> \in MemberTable(Aug(G), W, IdPos(W), TRUE, FALSE, tree)

IsRepairTranslationLenient(G, W, tree, c) ==
  <<tree, AX, 0, Len(W), c>> \in MemberTable(Aug(G), W, IdPos(W), TRUE, TRUE, tree)

(* starts a of the single-segment repairs  W[1..a] error W[a+c+1..]  that explain the tree *)
OneSegStarts(G, W, tree, c) ==
  {a \in 0..(Len(W) - c) : IsTranslationP(Aug(G), OneSegW(W, a, a + c), OneSegPos(W, a, a + c), tree)}

=============================================================================
