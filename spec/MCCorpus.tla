----------------------------- MODULE MCCorpus -----------------------------
(***************************************************************************)
(* Model: a corpus of raw definitions read from a JSON file (environment   *)
(* variable CORPUS), each judged by the declarative layer exactly like the *)
(* enumerated families of MCGram.  The corpus holds curated grammars (the  *)
(* test suite's expression grammar, nullable chains, hidden left           *)
(* recursion, unit chains that need several fixed-point passes, dangling   *)
(* else, palindromes, error rules) and generated ones (seeded random,      *)
(* chain families).  A corpus entry is                                     *)
(*   [id, terms : Seq([n, c]), rules : Seq(rule), maxlen, alphabet,        *)
(*    inputs : Seq(Seq(name))]                                             *)
(* The states are (entry, input): all inputs over `alphabet' up to maxlen  *)
(* are built token by token (so the workers share the load), and the       *)
(* listed inputs are added.  One vector per (entry, input) is printed.     *)
(***************************************************************************)
EXTENDS Repair, Json, IOUtils, SequencesExt

CONSTANTS EmitTrees, Recov, TreeCap

Corpus == JsonDeserialize(IOEnv.CORPUS)

VARIABLES gi, w, listed

RawOf(e) == [terms |-> e.terms, rules |-> e.rules]

CaseOf(G, ww) ==
  LET sent == IsSentence(G, ww)
      trs == IF EmitTrees /\ sent THEN Translations(G, ww) ELSE {}
      fo == FirstOffending(G, ww)
  IN [w |-> ww, sent |-> sent, fo |-> fo,
      nd |-> IF sent THEN NDerivCapped(G, ww) ELSE 0,
      ntr |-> Cardinality(trs),
      trs |-> IF Cardinality(trs) <= TreeCap THEN SetToSeq(trs) ELSE <<>>,
      mins |-> IF Cardinality(trs) <= TreeCap THEN SetToSeq(MinOf(trs)) ELSE <<>>,
      rv |-> IF Recov > 0 /\ ~sent
             THEN <<[rcs |-> [k1 \in 1..(Len(ww) + 1) |->
                               [m \in 1..Recov |-> IF k1 - 1 < fo THEN -1 ELSE MinSimpleRecoveryCost(G, ww, k1 - 1, m)]]]>>
             ELSE <<>>]

Init == /\ gi = 0
        /\ w = <<>>
        /\ listed = 0

(* gi = 0 is the root from which every corpus entry is reached by an action, so that the entries are
   distributed over the workers instead of being enumerated as initial states. *)
Extend == /\ gi > 0 /\ listed = 0
          /\ Len(w) < Corpus[gi].maxlen
          /\ \E t \in Range(Corpus[gi].alphabet) : w' = Append(w, t)
          /\ UNCHANGED <<gi, listed>>
Listed == /\ gi > 0 /\ listed = 0 /\ w = <<>>
          /\ \E k \in DOMAIN Corpus[gi].inputs : listed' = k /\ w' = Corpus[gi].inputs[k]
          /\ UNCHANGED gi
Pick == gi = 0 /\ gi' \in 1..Len(Corpus) /\ UNCHANGED <<w, listed>>
Next == Pick \/ Extend \/ Listed
Spec == Init /\ [][Next]_<<gi, w, listed>>

Emit ==
  gi > 0 =>
    LET e == Corpus[gi]
        raw == RawOf(e)
    IN IF w = <<>> /\ listed = 0
       THEN PrintT(<<"VEC", ToJson([id |-> e.id, terms |-> e.terms, rules |-> e.rules,
                                    dn |-> SetToSeq(Defects(raw, FALSE)), ds |-> SetToSeq(Defects(raw, TRUE)),
                                    cases |-> IF Defects(raw, FALSE) = {} THEN <<CaseOf(Gram(raw), w)>> ELSE <<>>])>>)
       ELSE Defects(raw, FALSE) = {} =>
              PrintT(<<"VEC", ToJson([id |-> e.id, cases |-> <<CaseOf(Gram(raw), w)>>])>>)
=============================================================================
