------------------------------ MODULE MCDescr ------------------------------
(***************************************************************************)
(* Model for C11: every rule sequence of a small family (the enumerator of *)
(* MCGram) written as a description text in each lexical style of          *)
(* Descr!Print.  For every (rules, style) TLC checks that the text follows *)
(* the manual's syntax (Lex + DescrG) and prints the text together with    *)
(* the raw definition it denotes and that definition's expected            *)
(* observables - the replay defines an object from the TEXT and requires   *)
(* the behaviour of the denoted definition.                                *)
(***************************************************************************)
EXTENDS MCGram, Descr

CONSTANTS Styles
VARIABLES sty

TermSeq == SetToSeq(Terms)

DInit == Init /\ sty = -1
DNext == \/ Next /\ sty = -1 /\ UNCHANGED sty
         \/ /\ sty = -1 /\ Len(rules) >= 1
            /\ sty' \in Styles /\ UNCHANGED rules
DSpec == DInit /\ [][DNext]_<<rules, sty>>

TextOf == PrintDescr(TermSeq, rules, sty)
DenotedRaw == [terms |-> DenotedTerms(TermSeq, rules, sty), rules |-> rules]

(* every printed text follows the documented syntax *)
PrintedIsValid == sty >= 0 => SyntaxOK(TextOf)

DEmit ==
  sty >= 0 =>
    LET raw == DenotedRaw
        dn == Defects(raw, FALSE)
        ds == Defects(raw, TRUE)
    IN PrintT(<<"VEC", ToJson([text |-> TextOf, style |-> sty, terms |-> raw.terms, rules |-> rules,
                               dn |-> SetToSeq(dn), ds |-> SetToSeq(ds), lines |-> Lines(TextOf),
                               cases |-> IF dn = {} THEN SetToSeq({Case(Gram(raw), w) : w \in Inputs}) ELSE <<>>])>>)
=============================================================================
