#!/bin/bash
# Build /repo's own CMake project with the verification guard OFF in a scratch dir, run ctest,
# compare with the 120 stable tests of BASELINE.json.
set -e
D=$(mktemp -d /tmp/yv_base.XXXXXX); trap 'rm -rf "$D"' EXIT
cmake -G Ninja -S /repo -B "$D" >"$D/cmake.log" 2>&1 || { tail -20 "$D/cmake.log"; exit 2; }
cmake --build "$D" -- -k 0 >"$D/build.log" 2>&1 || cmake --build "$D" -- -k 0 >>"$D/build.log" 2>&1 || true   # 2nd pass: yaep_test has no dependency on the generated sgramm.c;   # compare_parsers targets do not link in this image (always_fail in BASELINE)
ctest --test-dir "$D" -j8 --timeout 900 >"$D/ctest.log" 2>&1 || true
python3 - "$D/ctest.log" <<'PY'
import json,re,sys
base=json.load(open('/root/.vp/BASELINE.json'))
want={t.split('::')[0] for t in base['stable_pass']}
log=open(sys.argv[1]).read()
passed=set(re.findall(r'Test\s+#\d+:\s+(\S+)\s+\.+\s+Passed',log))
missing=sorted(want-passed)
print(f"baseline: {len(want&passed)}/{len(want)} stable tests pass with guard off")
if missing:
    print("FAILED:",missing); sys.exit(1)
PY
