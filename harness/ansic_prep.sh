#!/bin/bash
# Prepare the test suite's ANSI C material for replay: the 200-rule grammar description (text) taken from
# test/compare_parsers/test_yaep.c and the token code sequences of the .i files produced by the suite's
# own flex lexer (test/ansic.l).  usage: ansic_prep.sh OUTDIR
set -e
OUT=$1; REPO=${REPO:-/repo}; T=$REPO/test
mkdir -p "$OUT"
flex -o "$OUT/ansic.c" "$T/ansic.l" 2>/dev/null
{
  echo '#include <stdio.h>'; echo '#include <string.h>'; echo '#include <stdlib.h>'; echo '#include <limits.h>'; echo '#include <stddef.h>'; echo '#include <ctype.h>'
  echo '#include "objstack.h"'; echo '#include "hashtab.h"'
  sed -n '/^#define IDENTIFIER 1000/,/^static void store_lexs/p' "$T/compare_parsers/test_yaep.c" | sed '$d'
  sed -n '/^static const char \*description =/,/^  ;$/p' "$T/compare_parsers/test_yaep.c"
  cat <<'C'
int main (int argc, char **argv)
{
  int c, n = 0;
  if (argc > 1 && strcmp (argv[1], "desc") == 0) { fputs (description, stdout); return 0; }
  while ((c = yylex ()) > 0) { printf ("%d ", c); n++; }
  printf ("\n");
  fprintf (stderr, "%d tokens\n", n);
  return 0;
}
C
} > "$OUT/ansic_tok.c"
gcc -w -O1 -I"$OUT" -I"$T" -I"$T/compare_parsers" -I"$REPO/src" "$OUT/ansic_tok.c" "$REPO/src/allocate.c" "$REPO/src/hashtab.c" "$REPO/src/objstack.c" -o "$OUT/ansic_tok"
"$OUT/ansic_tok" desc > "$OUT/ansic_desc.txt"
for f in "$T/test.i" "$T/compare_parsers/test.i" "$T/compare_parsers/test1.i"; do
  b=$(echo "$f" | sed 's|.*/test/||; s|/|_|g')
  "$OUT/ansic_tok" < "$f" > "$OUT/tokens_$b.txt" 2>/dev/null
done
wc -w "$OUT"/tokens_*.txt | tail -4
