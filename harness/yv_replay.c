/* yv_replay: replays vectors produced by the TLA+ specification (TLC) into the real
   library and compares every observable with what the specification expects.
   Built twice from this one source: C/libyaep and C++/libyaep++ (class yaep).

   Input (stdin), one command per line:
     G <gid>                              start a grammar (frees the previous object)
     T <name> <code>                      terminal declaration
     R <lhs> <anode|-> <cost> <n> <rhs..> <m> <tr..>   rule; tr: 0-based index or N (NIL)
     D <strict> <allowed rc list>         define through read_grammar, e.g. "D 1 0" or "D 0 4,9"
     DT <strict> <allowed rc list> <hex>  define through parse_grammar (hex-encoded text)
     W <wid> <n> <codes..>                input tokens
     X k=v ...                            expectations for this input (sent fo nd nt mc rc)
     t <canon> | m <canon>                expected translation (m: also a minimal-cost one)
     r <ignored> <canon>                  expected translation of a repair ignoring <ignored> tokens
     P <la> <one> <cost> <rec> <match> <dbg> <mem>   parse and compare
   Output (stdout): JSON lines: mismatches, optional traces, a final summary.  */
#include "yv_common.h"
#include <ctype.h>

#define MAXT 1024
#define MAXR 1024
#define MAXRHS 16
#define MAXW (1 << 17)
#define MAXEXP 4096

/* ---------------- options ---------------- */
static int opt_trace;		/* emit one trace line per parse (for TLC trace validation) */
static int opt_sets;		/* install the hook sink and emit SET/HIT/REC events into the trace */
static int opt_mps;		/* also emit the make_parse walk (MPS events) into the trace */
static int opt_quiet;

/* ---------------- current grammar (harness side) ---------------- */
struct hterm { char *name; int code; };
struct hrule { char *lhs; char *an; int cost; int nrhs; char *rhs[MAXRHS]; int ntr; int tr[MAXRHS]; };
static struct hterm terms[MAXT];
static int nterms;
static struct hrule rules[MAXR];
static int nrules;
static char gid[128] = "-";
static GR cur;
static int cur_defined;		/* last definition succeeded */

/* ---------------- current input and expectations ---------------- */
static int toks_in[MAXW];
static int ntoks;
static char wid[128] = "-";
static char tags[MAXW + 2];	/* attribute of token i is &tags[i] */
static int x_sent, x_fo, x_nd, x_nt, x_rc, x_have_trees, x_have_repairs, x_cap;
static int x_rcost[16][16];	/* minimal simple recovery cost by error token and recovery_match, -1 unknown */
static char *exp_t[MAXEXP];
static char exp_min[MAXEXP];
static int n_exp;
static char *exp_r[MAXEXP];
static int exp_r_ign[MAXEXP];
static int n_exp_r;

/* ---------------- counters ---------------- */
static long n_parses, n_defs, n_mismatch, n_sent_parses, n_err_parses, n_hits, n_hit_diff, n_sets, n_recs, n_trees_cmp;

static char cfgstr[96] = "-";
static int ncalls;		/* syntax_error calls of the current parse */
static int mp1, mp2;		/* make_parse hook events of the current parse */

static void json_str (FILE *f, const char *s)
{
  fputc ('"', f);
  for (; *s; s++)
    {
      unsigned char c = (unsigned char) *s;
      if (c == '"' || c == '\\') { fputc ('\\', f); fputc (c, f); }
      else if (c < 32 || c > 126) fprintf (f, "\\u%04x", c);
      else fputc (c, f);
    }
  fputc ('"', f);
}

static void mismatch (const char *what, const char *got, const char *exp)
{
  n_mismatch++;
  printf ("{\"k\":\"mismatch\",\"lang\":\"%s\",\"g\":", YV_LANG);
  json_str (stdout, gid);
  printf (",\"w\":");
  json_str (stdout, wid);
  printf (",\"cfg\":\"%s\",\"what\":", cfgstr);
  json_str (stdout, what);
  printf (",\"got\":");
  json_str (stdout, got);
  printf (",\"exp\":");
  json_str (stdout, exp);
  printf (",\"mp1\":%d,\"mp2\":%d,\"calls\":%d}\n", mp1, mp2, ncalls);
}

static void mismatch_i (const char *what, long got, long exp)
{
  char a[32], b[32];
  sprintf (a, "%ld", got);
  sprintf (b, "%ld", exp);
  mismatch (what, a, b);
}

/* ---------------- definition callbacks ---------------- */
/* The caller's buffers are heap copies which are scribbled over and freed right after
   the defining call (C13: definitions are copied). */
static struct hterm *d_terms;
static int d_nterms, d_ti;
struct drule { char *lhs; char *an; int cost; const char **rhs; int *tr; };
static struct drule *d_rules;
static int d_nrules, d_ri;

static const char *rt_cb (int *code)
{
  if (d_ti >= d_nterms) return NULL;
  *code = d_terms[d_ti].code;
  return d_terms[d_ti++].name;
}
static const char *rr_cb (const char ***rhs, const char **an, int *cost, int **tr)
{
  struct drule *r;
  if (d_ri >= d_nrules) return NULL;
  r = &d_rules[d_ri++];
  *rhs = r->rhs;
  *an = r->an;
  *cost = r->cost;
  *tr = r->tr;
  return r->lhs;
}
static void scribble_free (char *s) { if (s != NULL) { memset (s, 'Z', strlen (s)); __real_free (s); } }

static void build_def_buffers (void)
{
  int i, j;
  d_nterms = nterms; d_ti = 0;
  d_terms = (struct hterm *) __real_malloc (sizeof (struct hterm) * (nterms + 1));
  for (i = 0; i < nterms; i++) { d_terms[i].name = yv_strdup (terms[i].name); d_terms[i].code = terms[i].code; }
  d_nrules = nrules; d_ri = 0;
  d_rules = (struct drule *) __real_malloc (sizeof (struct drule) * (nrules + 1));
  for (i = 0; i < nrules; i++)
    {
      struct hrule *h = &rules[i];
      struct drule *r = &d_rules[i];
      r->lhs = yv_strdup (h->lhs);
      r->an = h->an ? yv_strdup (h->an) : NULL;
      r->cost = h->cost;
      r->rhs = (const char **) __real_malloc (sizeof (char *) * (h->nrhs + 1));
      for (j = 0; j < h->nrhs; j++) r->rhs[j] = yv_strdup (h->rhs[j]);
      r->rhs[h->nrhs] = NULL;
      if (h->ntr < 0) r->tr = NULL;
      else
	{
	  r->tr = (int *) __real_malloc (sizeof (int) * (h->ntr + 1));
	  for (j = 0; j < h->ntr; j++) r->tr[j] = h->tr[j] < 0 ? YAEP_NIL_TRANSLATION_NUMBER : h->tr[j];
	  r->tr[h->ntr] = -1;
	}
    }
}
static void scribble_def_buffers (void)
{
  int i, j;
  for (i = 0; i < d_nterms; i++) { scribble_free (d_terms[i].name); d_terms[i].code = -77; }
  __real_free (d_terms);
  for (i = 0; i < d_nrules; i++)
    {
      struct drule *r = &d_rules[i];
      scribble_free (r->lhs);
      scribble_free (r->an);
      for (j = 0; r->rhs[j] != NULL; j++) scribble_free ((char *) r->rhs[j]);
      memset (r->rhs, 0x5a, sizeof (char *) * (j + 1));
      __real_free (r->rhs);
      if (r->tr) { for (j = 0; r->tr[j] >= 0; j++) r->tr[j] = 12345; __real_free (r->tr); }
    }
  __real_free (d_rules);
}

static int in_list (const char *list, int v)
{
  const char *p = list;
  while (*p)
    {
      int x = atoi (p);
      if (x == v) return 1;
      while (*p && *p != ',') p++;
      if (*p == ',') p++;
    }
  return 0;
}

/* ---------------- parse-time callbacks ---------------- */
static int rd_i;
static int read_tok_cb (void **attr)
{
  if (rd_i >= ntoks) { *attr = NULL; return -1; }
  *attr = &tags[rd_i];
  return toks_in[rd_i++];
}
struct secall { int err; void *ea; int ign; void *ia; int rec; void *ra; };
static struct secall calls[MAXW + 4];
static void syn_err_cb (int err, void *ea, int ign, void *ia, int rec, void *ra)
{
  if (ncalls < MAXW + 4)
    { calls[ncalls].err = err; calls[ncalls].ea = ea; calls[ncalls].ign = ign; calls[ncalls].ia = ia; calls[ncalls].rec = rec; calls[ncalls].ra = ra; }
  ncalls++;
}

/* parse_alloc / parse_free ledger */
struct blk { char *p; int size; int live; int freed_times; int epoch; };
static int cur_epoch;		/* parse number: blocks are tagged with the parse that allocated them */
static int chk_epoch = -1;	/* if >= 0: frees and reachable blocks must belong to this parse */
static long led_foreign_free;
static struct blk *blks;
static int nblks, capblks;
static long led_bad_free, led_double_free, led_null_free, led_allocs, led_frees;
static int ledger_on;
/* index of the blocks by start address (blocks are kept, poisoned, until the ledger is reset, so starts are unique) */
static int *blk_ix; static size_t blk_ixcap;
static void blk_ix_put (int i)
{
  size_t h;
  if ((size_t) nblks * 2 + 2 >= blk_ixcap)
    {
      size_t j; int k;
      blk_ixcap = blk_ixcap ? blk_ixcap * 2 : 4096;
      while ((size_t) nblks * 2 + 2 >= blk_ixcap) blk_ixcap *= 2;
      blk_ix = (int *) __real_realloc (blk_ix, sizeof (int) * blk_ixcap);
      for (j = 0; j < blk_ixcap; j++) blk_ix[j] = -1;
      for (k = 0; k < nblks; k++)
	if (k != i) { h = ((size_t) blks[k].p >> 4) * 2654435761u % blk_ixcap; while (blk_ix[h] >= 0) h = (h + 1) % blk_ixcap; blk_ix[h] = k; }
    }
  h = ((size_t) blks[i].p >> 4) * 2654435761u % blk_ixcap;
  while (blk_ix[h] >= 0) h = (h + 1) % blk_ixcap;
  blk_ix[h] = i;
}
static void *pa_cb (int n)
{
  char *p = (char *) __real_malloc (n > 0 ? n : 1);
  if (nblks == capblks) { capblks = capblks ? capblks * 2 : 1024; blks = (struct blk *) __real_realloc (blks, sizeof (struct blk) * capblks); }
  blks[nblks].p = p; blks[nblks].size = n; blks[nblks].live = 1; blks[nblks].freed_times = 0; blks[nblks].epoch = cur_epoch; nblks++;
  blk_ix_put (nblks - 1);
  led_allocs++;
  return p;
}
static int blk_find (void *p)
{
  size_t h;
  if (blk_ixcap == 0) return -1;
  for (h = ((size_t) p >> 4) * 2654435761u % blk_ixcap; blk_ix[h] >= 0; h = (h + 1) % blk_ixcap)
    if (blks[blk_ix[h]].p == (char *) p) return blk_ix[h];
  return -1;
}
static void pf_cb (void *p)
{
  int i;
  if (p == NULL) { led_null_free++; return; }
  i = blk_find (p);
  if (i < 0) { led_bad_free++; return; }	/* not ours: do not touch */
  if (!blks[i].live) { led_double_free++; return; }
  if (chk_epoch >= 0 && blks[i].epoch != chk_epoch) led_foreign_free++;
  blks[i].live = 0; blks[i].freed_times++;
  led_frees++;
  /* keep the memory (poisoned) so that stale reads see garbage instead of reused data */
  memset (blks[i].p, 0xdd, blks[i].size > 0 ? blks[i].size : 1);
}
static int blk_contains_live (void *p, size_t len)
{
  int i;
  i = blk_find (p);		/* the usual case: the start of a block */
  if (i >= 0 && blks[i].live && (chk_epoch < 0 || blks[i].epoch == chk_epoch) && (char *) p + len <= blks[i].p + blks[i].size) return 1;
  for (i = 0; i < nblks; i++)
    if (blks[i].live && (chk_epoch < 0 || blks[i].epoch == chk_epoch) && (char *) p >= blks[i].p && (char *) p + len <= blks[i].p + blks[i].size) return 1;
  return 0;
}
static void ledger_reset (void)
{
  int i;
  for (i = 0; i < nblks; i++) __real_free (blks[i].p);
  nblks = 0;
  if (blk_ixcap > 65536) { __real_free (blk_ix); blk_ix = NULL; blk_ixcap = 0; }	/* one huge parse must not slow down all later ones */
  { size_t j; for (j = 0; j < blk_ixcap; j++) blk_ix[j] = -1; }
  led_bad_free = led_double_free = led_null_free = led_allocs = led_frees = led_foreign_free = 0;
}
static long ledger_live (void) { int i; long n = 0; for (i = 0; i < nblks; i++) n += blks[i].live; return n; }

static long termcb_calls, termcb_bad;
static struct yaep_term *termcb_seen[MAXEXP];
static void termcb (struct yaep_term *t)
{
  long i;
  for (i = 0; i < termcb_calls && i < MAXEXP; i++) if (termcb_seen[i] == t) termcb_bad++;
  if (termcb_calls < MAXEXP) termcb_seen[termcb_calls] = t;
  termcb_calls++;
}

/* ---------------- tree walking ---------------- */
struct nd { struct yaep_tree_node *p; int state;	/* 0 new, 1 on stack, 2 done */ char **set; int nset; int over; };
static struct nd *nds;
static int nnds, capnds;
static int w_cycle, w_alt_under_alt, w_nil, w_err, w_alt, w_term, w_anode, w_dead, w_costbad, w_badattr, w_nullchild;
static struct yaep_tree_node *w_nilp, *w_errp;
static int w_costflag, w_cap, w_check_live;

#define NDH (1 << 20)
static int ndh[NDH];		/* pointer -> index + 1, open addressing */
static unsigned ndg[NDH], nd_gen = 1;	/* entry valid iff its generation is the current one */
static int nd_get (struct yaep_tree_node *p)
{
  size_t h = ((size_t) p >> 4) * 2654435761u % NDH;
  while (ndg[h] == nd_gen)
    {
      if (nds[ndh[h] - 1].p == p) return ndh[h] - 1;
      h = (h + 1) % NDH;
    }
  ndg[h] = nd_gen;
  ndh[h] = nnds + 1;
  if (nnds == capnds) { capnds = capnds ? capnds * 2 : 256; nds = (struct nd *) __real_realloc (nds, sizeof (struct nd) * capnds); }
  nds[nnds].p = p; nds[nnds].state = 0; nds[nnds].set = NULL; nds[nnds].nset = 0; nds[nnds].over = 0;
  return nnds++;
}
static void nds_reset (void)
{
  int i, j;
  for (i = 0; i < nnds; i++) { for (j = 0; j < nds[i].nset; j++) __real_free (nds[i].set[j]); __real_free (nds[i].set); }
  nd_gen++;
  nnds = 0;
}
static int cmpstr (const void *a, const void *b) { return strcmp (*(char *const *) a, *(char *const *) b); }
static void set_add (struct nd *n, char *s)	/* takes ownership */
{
  int i;
  if (w_cap == 0) { __real_free (s); return; }	/* structure-only walk for long inputs */
  for (i = 0; i < n->nset; i++) if (strcmp (n->set[i], s) == 0) { __real_free (s); return; }
  if (n->nset >= w_cap) { n->over = 1; __real_free (s); return; }
  n->set = (char **) __real_realloc (n->set, sizeof (char *) * (n->nset + 1));
  n->set[n->nset++] = s;
}
/* cost field of the subtree rooted at P as the parent sees it */
static int sub_cost (struct yaep_tree_node *p)
{
  if (p == NULL) return 0;
  if (p->type == YAEP_ANODE) return p->val.anode.cost;
  if (p->type == YAEP_ALT)
    {
      struct yaep_tree_node *a;
      int c0 = 0, first = 1;
      for (a = p; a != NULL; a = a->val.alt.next)
	{
	  int c = sub_cost (a->val.alt.node);
	  if (first) { c0 = c; first = 0; }
	  else if (c != c0 && w_costflag) w_costbad++;
	  if (a->val.alt.next != NULL && a->val.alt.next->type != YAEP_ALT) break;
	}
      return c0;
    }
  return 0;
}
static int walk (struct yaep_tree_node *p);
/* Denoted set of node index I (computed by walk).  */
static void build_anode_set (int idx)
{
  struct yaep_tree_node *p = nds[idx].p;
  int nk = 0, k, own, sum = 0;
  int kid[MAXRHS + 2];
  int choice[MAXRHS + 2];
  char head[300];
  while (p->val.anode.children[nk] != NULL && nk < MAXRHS + 1) nk++;
  for (k = 0; k < nk; k++)
    {
      kid[k] = walk (p->val.anode.children[k]);
      sum += sub_cost (p->val.anode.children[k]);
      if (kid[k] < 0) return;
    }
  own = w_costflag ? p->val.anode.cost - sum : p->val.anode.cost;
  snprintf (head, sizeof head, "%.200s/%d(", p->val.anode.name ? p->val.anode.name : "?", own);
  if (w_cap == 0) return;
  for (k = 0; k < nk; k++) { if (nds[kid[k]].nset == 0) return; if (nds[kid[k]].over) nds[idx].over = 1; choice[k] = 0; }
  for (;;)
    {
      struct sb b;
      sb_init (&b);
      sb_add (&b, head);
      for (k = 0; k < nk; k++) { if (k) sb_add (&b, " "); sb_add (&b, nds[kid[k]].set[choice[k]]); }
      sb_add (&b, ")");
      set_add (&nds[idx], b.s);
      if (nds[idx].over) return;
      for (k = nk - 1; k >= 0; k--)
	{
	  if (++choice[k] < nds[kid[k]].nset) break;
	  choice[k] = 0;
	}
      if (k < 0) break;
    }
}
static int walk (struct yaep_tree_node *p)
{
  int idx;
  char buf[64];
  if (p == NULL) { w_nullchild++; return -1; }
  idx = nd_get (p);
  if (nds[idx].state == 2) return idx;
  if (nds[idx].state == 1) { w_cycle++; return -1; }
  nds[idx].state = 1;
  if (w_check_live && !blk_contains_live (p, sizeof (struct yaep_tree_node))) { w_dead++; nds[idx].state = 2; return -1; }
  switch (p->type)
    {
    case YAEP_NIL:
      w_nil++; if (w_nilp != NULL && w_nilp != p) w_nil += 100; w_nilp = p;
      set_add (&nds[idx], yv_strdup ("-"));
      break;
    case YAEP_ERROR:
      w_err++; if (w_errp != NULL && w_errp != p) w_err += 100; w_errp = p;
      set_add (&nds[idx], yv_strdup ("!"));
      break;
    case YAEP_TERM:
      w_term++;
      {
	char *a = (char *) p->val.term.attr;
	if (a >= tags && a < tags + MAXW) sprintf (buf, "t%d@%d", p->val.term.code, (int) (a - tags));
	else { sprintf (buf, "t%d@?", p->val.term.code); w_badattr++; }
	set_add (&nds[idx], yv_strdup (buf));
      }
      break;
    case YAEP_ANODE:
      w_anode++;
      if (w_check_live)
	{
	  int nk = 0;
	  if (p->val.anode.name == NULL || !blk_contains_live ((void *) p->val.anode.name, 1)) w_dead++;
	  if (!blk_contains_live (p->val.anode.children, sizeof (void *))) { w_dead++; nds[idx].state = 2; return -1; }
	  while (p->val.anode.children[nk] != NULL && nk < MAXRHS + 1) nk++;
	  if (!blk_contains_live (p->val.anode.children, sizeof (void *) * (nk + 1))) w_dead++;
	}
      build_anode_set (idx);
      break;
    case YAEP_ALT:
      {
	struct yaep_tree_node *a;
	for (a = p; a != NULL; a = a->val.alt.next)
	  {
	    int k, j;
	    if (a != p && w_check_live && !blk_contains_live (a, sizeof (struct yaep_tree_node))) { w_dead++; break; }
	    if (a->type != YAEP_ALT) { w_alt_under_alt += 1000; break; }	/* next must be an ALT */
	    w_alt++;
	    if (a->val.alt.node == NULL) { w_nullchild++; continue; }
	    if (a->val.alt.node->type == YAEP_ALT) { w_alt_under_alt++; }
	    k = walk (a->val.alt.node);
	    if (k < 0) continue;
	    if (nds[k].over) nds[idx].over = 1;
	    for (j = 0; j < nds[k].nset; j++) set_add (&nds[idx], yv_strdup (nds[k].set[j]));
	  }
      }
      break;
    default:
      w_dead++;
    }
  nds[idx].state = 2;
  return idx;
}

static char *join_set (char **set, int n)
{
  struct sb b;
  int i;
  sb_init (&b);
  for (i = 0; i < n; i++) { if (i) sb_add (&b, " | "); sb_add (&b, set[i]); }
  return b.s;
}

/* structural serialisation of a (DAG) result, node identities numbered in visiting order */
static struct yaep_tree_node **ser_seen; static int ser_cap;
static int ser_n;
static void ser (struct sb *b, struct yaep_tree_node *p, int *nterm)
{
  char buf[96];
  int i;
  if (p == NULL) { sb_add (b, "NULL"); return; }
  for (i = 0; i < ser_n; i++) if (ser_seen[i] == p) { sprintf (buf, "#%d", i); sb_add (b, buf); return; }
  if (ser_n == ser_cap) { ser_cap = ser_cap ? ser_cap * 2 : 4096; ser_seen = (struct yaep_tree_node **) __real_realloc (ser_seen, sizeof (void *) * ser_cap); }
  ser_seen[ser_n++] = p;
  switch (p->type)
    {
    case YAEP_NIL: sb_add (b, "-"); break;
    case YAEP_ERROR: sb_add (b, "!"); break;
    case YAEP_TERM:
      if ((char *) p->val.term.attr >= tags && (char *) p->val.term.attr < tags + MAXW) sprintf (buf, "t%d@%ld", p->val.term.code, (long) ((char *) p->val.term.attr - tags));
      else sprintf (buf, "t%d@?", p->val.term.code);	/* not a token attribute (reported elsewhere); keep the hash deterministic */
      sb_add (b, buf); (*nterm)++; break;
    case YAEP_ANODE:
      sb_add (b, p->val.anode.name); sprintf (buf, "/%d(", p->val.anode.cost); sb_add (b, buf);
      for (i = 0; p->val.anode.children[i] != NULL; i++) { if (i) sb_add (b, " "); ser (b, p->val.anode.children[i], nterm); }
      sb_add (b, ")");
      break;
    case YAEP_ALT:
      {
	/* a list of alternatives can be very long: no recursion along it */
	struct yaep_tree_node *a;
	int depth = 0;
	for (a = p; a != NULL && a->type == YAEP_ALT; a = a->val.alt.next)
	  {
	    if (a != p)
	      {
		for (i = 0; i < ser_n; i++) if (ser_seen[i] == a) break;
		if (i < ser_n) { sprintf (buf, "#%d", i); sb_add (b, buf); a = NULL; break; }
		if (ser_n == ser_cap) { ser_cap = ser_cap ? ser_cap * 2 : 4096; ser_seen = (struct yaep_tree_node **) __real_realloc (ser_seen, sizeof (void *) * ser_cap); }
		ser_seen[ser_n++] = a;
	      }
	    sb_add (b, "{"); ser (b, a->val.alt.node, nterm); sb_add (b, "|"); depth++;
	  }
	if (a != NULL) ser (b, a, nterm); else if (depth > 0 && b->n > 0 && b->s[b->n - 1] == '|') sb_add (b, "NULL");
	while (depth-- > 0) sb_add (b, "}");
      }
      break;
    default: sb_add (b, "?BADTYPE");
    }
}
static char *serialise (struct yaep_tree_node *root, int *nterm)
{
  struct sb b;
  sb_init (&b);
  ser_n = 0; *nterm = 0;
  ser (&b, root, nterm);
  return b.s;
}


/* hash of the DENOTATION of a result: independent of node sharing and of the order of alternatives (a list of alternatives
   is hashed as the set of its members' hashes; exact for results without alternatives) */
static struct yaep_tree_node **dh_key; static unsigned long *dh_val; static size_t dh_cap, dh_n;
static unsigned long dh_mix (unsigned long h, unsigned long v) { h ^= v + 0x9e3779b97f4a7c15UL + (h << 6) + (h >> 2); return h * 1099511628211UL; }
static int dh_cmp (const void *a, const void *b) { unsigned long x = *(const unsigned long *) a, y = *(const unsigned long *) b; return x < y ? -1 : x > y; }
static unsigned long *dh_slot (struct yaep_tree_node *p, int *found)
{
  size_t i;
  if (dh_n * 2 >= dh_cap)
    {
      size_t oc = dh_cap, j; struct yaep_tree_node **ok = dh_key; unsigned long *ov = dh_val;
      dh_cap = dh_cap ? dh_cap * 2 : 8192;
      dh_key = (struct yaep_tree_node **) __real_calloc (dh_cap, sizeof (void *)); dh_val = (unsigned long *) __real_calloc (dh_cap, sizeof (unsigned long));
      for (j = 0; j < oc; j++) if (ok[j] != NULL) { size_t q = ((size_t) ok[j] >> 4) % dh_cap; while (dh_key[q] != NULL) q = (q + 1) % dh_cap; dh_key[q] = ok[j]; dh_val[q] = ov[j]; }
      __real_free (ok); __real_free (ov);
    }
  i = ((size_t) p >> 4) % dh_cap;
  while (dh_key[i] != NULL && dh_key[i] != p) i = (i + 1) % dh_cap;
  *found = dh_key[i] == p;
  if (!*found) { dh_key[i] = p; dh_n++; }
  return &dh_val[i];
}
static unsigned long dh (struct yaep_tree_node *p, int depth)
{
  unsigned long h, *slot; int found, i;
  const char *c;
  if (p == NULL) return 7;
  if (depth > 100000) return 13;
  slot = dh_slot (p, &found);
  if (found) return *slot;
  *slot = 17;	/* value seen if the result is cyclic (reported elsewhere) */
  switch (p->type)
    {
    case YAEP_NIL: h = 101; break;
    case YAEP_ERROR: h = 103; break;
    case YAEP_TERM:
      h = dh_mix (107, (unsigned long) p->val.term.code);
      h = dh_mix (h, (char *) p->val.term.attr >= tags && (char *) p->val.term.attr < tags + MAXW ? (unsigned long) ((char *) p->val.term.attr - tags) : 999999UL);
      break;
    case YAEP_ANODE:
      h = 109;
      for (c = p->val.anode.name; *c; c++) h = dh_mix (h, (unsigned char) *c);
      h = dh_mix (h, (unsigned long) p->val.anode.cost);
      for (i = 0; p->val.anode.children[i] != NULL; i++) h = dh_mix (h, dh (p->val.anode.children[i], depth + 1));
      break;
    case YAEP_ALT:
      {
	unsigned long *v = NULL; size_t n = 0, cap = 0, k; struct yaep_tree_node *a;
	for (a = p; a != NULL && a->type == YAEP_ALT; a = a->val.alt.next)
	  {
	    if (n == cap) { cap = cap ? cap * 2 : 8; v = (unsigned long *) __real_realloc (v, cap * sizeof (unsigned long)); }
	    v[n++] = dh (a->val.alt.node, depth + 1);
	  }
	qsort (v, n, sizeof (unsigned long), dh_cmp);
	h = 113;
	for (k = 0; k < n; k++) if (k == 0 || v[k] != v[k - 1]) h = dh_mix (h, v[k]);
	__real_free (v);
      }
      break;
    default: h = 127;
    }
  slot = dh_slot (p, &found);
  *slot = h;
  return h;
}
static unsigned long denotation_hash (struct yaep_tree_node *root)
{
  if (dh_cap) { memset (dh_key, 0, dh_cap * sizeof (void *)); dh_n = 0; }
  return dh (root, 0);
}

static unsigned long fnv (const char *s) { unsigned long h = 1469598103934665603UL; for (; *s; s++) { h ^= (unsigned char) *s; h *= 1099511628211UL; } return h; }

/* ---------------- hook sink ---------------- */
#ifdef YAEP_VERIF
static struct sb trace_sets;
static int sets_active;
static int last_hit_n;
static int last_hit_items[4 * 4096];
static int cmp4 (const void *a, const void *b)
{
  const int *x = (const int *) a, *y = (const int *) b;
  int i;
  for (i = 0; i < 4; i++) if (x[i] != y[i]) return x[i] < y[i] ? -1 : 1;
  return 0;
}
static void sink (const struct yaep_verif_event *ev)
{
  char buf[160];
  int i;
  static int sorted[4 * 4096];
  if (ev->kind == YAEP_VERIF_HIT)
    {
      n_hits++;
      last_hit_n = ev->n;
      memcpy (last_hit_items, ev->items, sizeof (int) * 4 * ev->n);
      qsort (last_hit_items, ev->n, 4 * sizeof (int), cmp4);
    }
  else if (ev->kind == YAEP_VERIF_SET)
    {
      n_sets++;
      if (ev->c == 1)
	{
	  /* the cached set that is being reused: compare with the fresh computation, as sets */
	  memcpy (sorted, ev->items, sizeof (int) * 4 * ev->n);
	  qsort (sorted, ev->n, 4 * sizeof (int), cmp4);
	  if (ev->n != last_hit_n || memcmp (sorted, last_hit_items, sizeof (int) * 4 * ev->n) != 0)
	    {
	      n_hit_diff++;
	      sprintf (buf, "pl=%d tok=%d la=%d", ev->a, ev->b, ev->d);
	      mismatch ("cache: reused set differs from fresh computation", buf, "equal item sets");
	    }
	}
    }
  else if (ev->kind == YAEP_VERIF_REC) n_recs++;
  else if (ev->kind == YAEP_VERIF_MP) { if (ev->a == 1) mp1++; else mp2++; }
  if (!sets_active) return;
#ifdef YAEP_VERIF_MPS
  if (ev->kind == YAEP_VERIF_MPS && !opt_mps) return;
#endif
  snprintf (buf, sizeof buf, "%s{\"k\":%d,\"a\":%d,\"b\":%d,\"c\":%d,\"d\":%d,\"e\":%d,\"f\":%d,\"it\":[", trace_sets.n ? "," : "", ev->kind, ev->a, ev->b, ev->c, ev->d, ev->e, ev->f);
  sb_add (&trace_sets, buf);
  for (i = 0; i < ev->n; i++)
    {
      snprintf (buf, sizeof buf, "%s[%d,%d,%d,%d]", i ? "," : "", ev->items[4 * i], ev->items[4 * i + 1], ev->items[4 * i + 2], ev->items[4 * i + 3]);
      sb_add (&trace_sets, buf);
    }
  sb_add (&trace_sets, "]}");
}
#endif

/* ---------------- one parse ---------------- */
static void do_parse (int la, int one, int cost, int rec, int match, int dbg, int mem)
{
  struct yaep_tree_node *root = (struct yaep_tree_node *) 0x1;
  int amb = -99, rc, i, ridx = -1;
  long lib_before;
  char *got = NULL;
  long total_ign = 0;
  snprintf (cfgstr, sizeof cfgstr, "%d,%d,%d,%d,%d,%d,%d", la, one, cost, rec, match, dbg, mem);
  snprintf (yv_where, sizeof yv_where, "parse g=%s w=%s cfg=%s", gid, wid, cfgstr);
  if (cur == NULL) { mismatch ("no object", "", ""); return; }
  n_parses++;
  LIB (G_SET_LA (cur, la));
  LIB (G_SET_ONE (cur, one));
  LIB (G_SET_COST (cur, cost));
  LIB (G_SET_REC (cur, rec));
  LIB (G_SET_MATCH (cur, match));
  LIB (G_SET_DEBUG (cur, dbg));
  rd_i = 0; ncalls = 0; mp1 = mp2 = 0;
  ledger_reset ();
  ledger_on = (mem == 0 || mem == 2);
  lib_before = yv_lib_live;
#ifdef YAEP_VERIF
  trace_sets.n = 0; trace_sets.s[0] = 0; sets_active = opt_trace && opt_sets;
#endif
  alarm (20);
  if (mem == 0) LIB (rc = G_PARSE (cur, read_tok_cb, syn_err_cb, pa_cb, pf_cb, &root, &amb));
  else if (mem == 2) LIB (rc = G_PARSE (cur, read_tok_cb, syn_err_cb, pa_cb, NULL, &root, &amb));
  else LIB (rc = G_PARSE (cur, read_tok_cb, syn_err_cb, NULL, NULL, &root, &amb));
  alarm (0);
  snprintf (yv_where, sizeof yv_where, "after-parse g=%s w=%s cfg=%s", gid, wid, cfgstr);

  if (!cur_defined)
    {
      if (rc != YAEP_UNDEFINED_OR_BAD_GRAMMAR) mismatch_i ("parse on undefined/bad grammar: rc", rc, YAEP_UNDEFINED_OR_BAD_GRAMMAR);
      if (G_ERRCODE (cur) != rc) mismatch_i ("error_code after failing parse", G_ERRCODE (cur), rc);
      return;
    }
  if (rc != x_rc) { mismatch_i ("parse rc", rc, x_rc); if (rc != 0) return; }
  if (rc != 0)
    {
      /* expected failure (invalid token code) */
      if (G_ERRCODE (cur) != rc) mismatch_i ("error_code after failing parse", G_ERRCODE (cur), rc);
      if (root != NULL) mismatch ("root after failing parse", "non-NULL", "NULL");
      if (mem != 1 && ledger_live () != 0 && mem == 0) mismatch_i ("parse_alloc blocks live after failing parse", ledger_live (), 0);
      return;
    }
  if (x_sent) n_sent_parses++; else n_err_parses++;

  /* --- callbacks (C01, C06, C07, C08) --- */
  if (x_sent >= 0)
    {
      if (x_sent && ncalls != 0) mismatch_i ("syntax_error calls on a sentence", ncalls, 0);
      if (!x_sent && ncalls == 0) mismatch ("syntax_error calls on a non-sentence", "0", ">=1");
      if (!rec)
	{
	  if (x_sent && root == NULL) mismatch ("root for sentence (recovery off)", "NULL", "non-NULL");
	  if (!x_sent && root != NULL) mismatch ("root for non-sentence (recovery off)", "non-NULL", "NULL");
	  if (!x_sent && ncalls != 1) mismatch_i ("syntax_error calls (recovery off)", ncalls, 1);
	  if (!x_sent && ncalls >= 1 && (calls[0].ign != -1 || calls[0].ia != NULL || calls[0].rec != -1 || calls[0].ra != NULL))
	    mismatch ("recovery arguments with recovery off", "not (-1,NULL,-1,NULL)", "(-1,NULL,-1,NULL)");
	}
      else if (root == NULL) mismatch ("root with recovery on", "NULL", "non-NULL");
    }
  for (i = 0; i < ncalls && i < MAXW; i++)
    {
      struct secall *c = &calls[i];
      if (i == 0 && x_fo >= 0 && c->err != x_fo) mismatch_i ("first error token", c->err, x_fo);
      if (c->err < 0 || c->err > ntoks) mismatch_i ("error token out of range", c->err, ntoks);
      else if (c->ea != (c->err < ntoks ? (void *) &tags[c->err] : NULL)) mismatch_i ("error token attribute does not belong to the token", c->err, c->err);
      if (i > 0 && c->err <= calls[i - 1].err) mismatch_i ("error tokens not strictly increasing", c->err, calls[i - 1].err + 1);
      if (rec)
	{
	  if (!(0 <= c->ign && c->ign <= c->rec && c->rec <= ntoks))
	    {
	      char b[64]; sprintf (b, "ign=%d rec=%d n=%d", c->ign, c->rec, ntoks);
	      mismatch ("recovery range", b, "0<=ign<=rec<=n");
	    }
	  else
	    {
	      if (c->ia != (c->ign < ntoks ? (void *) &tags[c->ign] : NULL)) mismatch_i ("first-ignored attribute does not belong to the token", c->ign, c->ign);
	      if (c->ra != (c->rec < ntoks ? (void *) &tags[c->rec] : NULL)) mismatch_i ("first-recovered attribute does not belong to the token", c->rec, c->rec);
	      total_ign += c->rec - c->ign;
	      if (i == 0 && match < 16 && c->err < 16 && x_rcost[c->err][match < 1 ? 1 : match] >= 0
		  && c->rec - c->ign > x_rcost[c->err][match < 1 ? 1 : match])
		mismatch_i ("ignored tokens of the first recovery exceed the cheapest simple recovery", c->rec - c->ign, x_rcost[c->err][match < 1 ? 1 : match]);
	    }
	}
    }
  /* --- ambiguity flag (C05) --- */
  if (x_sent == 1 && x_nd >= 0)
    {
      if (amb != 0 && x_nd < 2) mismatch_i ("ambiguous_p set but derivations", amb, x_nd);
      if (amb == 0 && x_nt >= 2) mismatch_i ("ambiguous_p clear but distinct translations", amb, x_nt);
    }

  /* --- tree (C02, C03, C04, C07, C13) --- */
  if (root != NULL)
    {
      nds_reset ();
      w_cycle = w_alt_under_alt = w_nil = w_err = w_alt = w_term = w_anode = w_dead = w_costbad = w_badattr = w_nullchild = 0;
      w_nilp = w_errp = NULL;
      w_costflag = cost;
      w_check_live = (mem == 0 || mem == 2) && ntoks <= 300;
      w_cap = (x_have_trees && x_sent == 1 ? n_exp : x_have_repairs ? n_exp_r : 0) + 1;
      if (w_cap < 8) w_cap = 8;
      if (x_cap > w_cap) w_cap = x_cap;	/* trace lines whose denoted set is counted by TLC */
      if (ntoks > 300) w_cap = 0;
      ridx = walk (root);
      if (w_cycle) mismatch_i ("tree has a cycle", w_cycle, 0);
      if (w_alt_under_alt) mismatch_i ("ALT node as alternative of an ALT node", w_alt_under_alt, 0);
      if (w_nil > 1) mismatch_i ("NIL node exemplars", w_nil, 1);
      if (w_err > 1) mismatch_i ("ERROR node exemplars", w_err, 1);
      if (w_dead) mismatch_i ("reachable node/name/children not inside a live parse_alloc block", w_dead, 0);
      if (w_costbad) mismatch_i ("alternatives with different costs under the cost flag", w_costbad, 0);
      if (w_badattr) mismatch_i ("TERM attribute is not a token attribute", w_badattr, 0);
      if (w_nullchild) mismatch_i ("NULL child/alternative", w_nullchild, 0);
      if (one && w_alt) mismatch_i ("ALT nodes with one_parse", w_alt, 0);
      if (ridx >= 0)
	{
	  struct nd *r = &nds[ridx];
	  qsort (r->set, r->nset, sizeof (char *), cmpstr);
	  got = join_set (r->set, r->nset);
	  if (x_sent == 1 && x_have_trees)
	    {
	      int j, k, bad = 0;
	      n_trees_cmp++;
	      for (j = 0; j < r->nset; j++)
		{
		  for (k = 0; k < n_exp; k++) if (strcmp (r->set[j], exp_t[k]) == 0) break;
		  if (k == n_exp) { mismatch ("denoted tree is not a translation of the input", r->set[j], "member of Translations"); bad = 1; break; }
		  if (cost && !exp_min[k]) { mismatch ("denoted tree is not of minimal cost", r->set[j], "member of MinTranslations"); bad = 1; break; }
		}
	      if (!bad && r->over) mismatch ("more denoted trees than translations", got, "");
	      if (!bad && one && r->nset != 1) mismatch_i ("denoted trees with one_parse", r->nset, 1);
	      if (!bad && !one)
		for (k = 0; k < n_exp; k++)
		  {
		    if (cost && !exp_min[k]) continue;
		    for (j = 0; j < r->nset; j++) if (strcmp (r->set[j], exp_t[k]) == 0) break;
		    if (j == r->nset) { mismatch (cost ? "minimal translation missing from the result" : "translation missing from the all-parses result", got, exp_t[k]); break; }
		  }
	    }
	  else if (x_sent == 0 && x_have_repairs && rec)
	    {
	      int j, k;
	      for (j = 0; j < r->nset; j++)
		{
		  for (k = 0; k < n_exp_r; k++) if (exp_r_ign[k] == total_ign && strcmp (r->set[j], exp_r[k]) == 0) break;
		  if (k == n_exp_r)
		    {
		      char b[64]; sprintf (b, "translation of a repair ignoring %ld tokens", total_ign);
		      mismatch ("tree after recovery matches no repair of the reported size", r->set[j], b);
		      break;
		    }
		}
	    }
	}
    }
  /* --- trace line --- */
  if (opt_trace)
    {
      printf ("{\"k\":\"parse\",\"lang\":\"%s\",\"g\":", YV_LANG); json_str (stdout, gid);
      printf (",\"w\":"); json_str (stdout, wid);
      printf (",\"toks\":[");
      if (ntoks <= 64) for (i = 0; i < ntoks; i++) printf ("%s%d", i ? "," : "", toks_in[i]);
      {
	int nt0 = 0; char *sr = root != NULL && root != (struct yaep_tree_node *) 0x1 ? serialise (root, &nt0) : yv_strdup ("");
	printf ("],\"n\":%d,\"dbg\":%d,\"thash\":\"%lx\",\"dhash\":\"%lx\",\"nterm\":%d", ntoks, dbg, fnv (sr),
		root != NULL && root != (struct yaep_tree_node *) 0x1 ? denotation_hash (root) : 0UL, nt0);
	__real_free (sr);
      }
      printf (",\"la\":%d,\"one\":%d,\"cost\":%d,\"rec\":%d,\"match\":%d,\"rc\":%d,\"root\":%d,\"amb\":%d,\"mp1\":%d,\"mp2\":%d,\"calls\":[", la, one, cost, rec, match, rc, root != NULL, amb != 0, mp1, mp2);
      for (i = 0; i < ncalls && i < MAXW; i++) printf ("%s[%d,%d,%d]", i ? "," : "", calls[i].err, calls[i].ign, calls[i].rec);
      printf ("],\"trees\":[");
      if (ridx >= 0) for (i = 0; i < nds[ridx].nset; i++) { if (i) printf (","); json_str (stdout, nds[ridx].set[i]); }
      printf ("],\"over\":%d", ridx >= 0 ? nds[ridx].over : 0);
#ifdef YAEP_VERIF
      if (opt_sets) printf (",\"ev\":[%s]", trace_sets.s ? trace_sets.s : "");
#endif
      printf ("}\n");
    }
  if (got) __real_free (got);

  /* --- memory: the tree outlives the grammar? (checked by re-serialising in yv_api); here: free_tree --- */
  if (root != NULL && mem != 2)
    {
      int terms_before = w_term;
      termcb_calls = termcb_bad = 0;
      snprintf (yv_where, sizeof yv_where, "free_tree g=%s w=%s cfg=%s", gid, wid, cfgstr);
      if (mem == 0) LIB (G_FREE_TREE (root, pf_cb, termcb));
      else LIB (G_FREE_TREE (root, NULL, termcb));
      if (termcb_calls != terms_before) mismatch_i ("terminal callback calls in free_tree", termcb_calls, terms_before);
      if (termcb_bad) mismatch_i ("terminal callback called twice for a node", termcb_bad, 0);
    }
  if (mem == 0)
    {
      if (led_bad_free) mismatch_i ("parse_free called with a pointer parse_alloc never returned", led_bad_free, 0);
      if (led_double_free) mismatch_i ("parse_free called twice for a block", led_double_free, 0);
      if (led_null_free) mismatch_i ("parse_free called with NULL", led_null_free, 0);
      if (ledger_live () != 0) mismatch_i ("parse_alloc blocks never released after yaep_free_tree", ledger_live (), 0);
    }
  /* (the grammar object may keep memory between parses - e.g. lookahead sets live in its own storage -
     so only the final "everything freed" state is judged, see main) */
  (void) lib_before;
}

/* ---------------- definition ---------------- */
static void free_harness_grammar (void)
{
  int i, j;
  for (i = 0; i < nterms; i++) __real_free (terms[i].name);
  for (i = 0; i < nrules; i++)
    {
      __real_free (rules[i].lhs);
      if (rules[i].an) __real_free (rules[i].an);
      for (j = 0; j < rules[i].nrhs; j++) __real_free (rules[i].rhs[j]);
    }
  nterms = nrules = 0;
}

static void check_error_state (int rc, const char *list)
{
  const char *msg;
  if (opt_trace)
    {
      printf ("{\"k\":\"def\",\"lang\":\"%s\",\"g\":", YV_LANG); json_str (stdout, gid);
      printf (",\"cfg\":\"%s\",\"rc\":%d,\"err\":%d,\"msg\":", cfgstr, rc, G_ERRCODE (cur)); json_str (stdout, rc != 0 ? G_ERRMSG (cur) : "");
      printf ("}\n");
    }
  if (rc != 0)
    {
      if (G_ERRCODE (cur) != rc) mismatch_i ("error_code after failing definition", G_ERRCODE (cur), rc);
      msg = G_ERRMSG (cur);
      if (msg == NULL || msg[0] == 0) mismatch ("error message after failing definition", "empty", "non-empty");
      else if (strlen (msg) > 200) mismatch_i ("error message length", (long) strlen (msg), 200);
    }
  if (!in_list (list, rc)) { char b[32]; sprintf (b, "%d", rc); mismatch ("definition return code", b, list); }
}

static void do_define (int strict, const char *list)
{
  int rc;
  snprintf (cfgstr, sizeof cfgstr, "def strict=%d", strict);
  snprintf (yv_where, sizeof yv_where, "define g=%s strict=%d", gid, strict);
  n_defs++;
  if (cur == NULL) { LIB (cur = G_CREATE ()); }
  if (cur == NULL) { mismatch ("create", "NULL", "object"); return; }
  build_def_buffers ();
  LIB (rc = G_READ (cur, strict, rt_cb, rr_cb));
  scribble_def_buffers ();
  cur_defined = (rc == 0);
  check_error_state (rc, list);
}

static void do_define_text (int strict, const char *list, const char *hex)
{
  int rc;
  size_t n = strlen (hex) / 2, i;
  char *text = (char *) __real_malloc (n + 1);
  for (i = 0; i < n; i++) { unsigned v; sscanf (hex + 2 * i, "%2x", &v); text[i] = (char) v; }
  text[n] = 0;
  snprintf (cfgstr, sizeof cfgstr, "deftext strict=%d", strict);
  snprintf (yv_where, sizeof yv_where, "define-text g=%s strict=%d", gid, strict);
  n_defs++;
  if (cur == NULL) { LIB (cur = G_CREATE ()); }
  if (cur == NULL) { mismatch ("create", "NULL", "object"); __real_free (text); return; }
  LIB (rc = G_PARSEG (cur, strict, text));
  memset (text, '#', n);
  __real_free (text);
  cur_defined = (rc == 0);
  check_error_state (rc, list);
  if (rc == YAEP_DESCRIPTION_SYNTAX_ERROR_CODE)
    {
      const char *m = G_ERRMSG (cur);
      printf ("{\"k\":\"synerr\",\"g\":"); json_str (stdout, gid); printf (",\"msg\":"); json_str (stdout, m ? m : ""); printf ("}\n");
    }
}

static void clear_expect (void)
{
  int i;
  for (i = 0; i < n_exp; i++) __real_free (exp_t[i]);
  for (i = 0; i < n_exp_r; i++) __real_free (exp_r[i]);
  n_exp = n_exp_r = 0;
  x_sent = -1; x_fo = -1; x_nd = -1; x_nt = -1; x_rc = 0; x_have_trees = 0; x_have_repairs = 0; x_cap = 0;
  for (i = 0; i < 256; i++) x_rcost[i / 16][i % 16] = -1;
}

#ifndef YV_NO_MAIN
int main (int argc, char **argv)
{
  static char line[1 << 20];
  int i;
  long lib0;
  for (i = 1; i < argc; i++)
    {
      if (strcmp (argv[i], "-t") == 0) opt_trace = 1;
      else if (strcmp (argv[i], "-s") == 0) opt_sets = 1;
      else if (strcmp (argv[i], "-m") == 0) opt_mps = 1;
      else if (strcmp (argv[i], "-q") == 0) opt_quiet = 1;
    }
  yv_install_handlers ();
  if (getenv ("YV_STDERR") == NULL && freopen ("/dev/null", "w", stderr) == NULL) {}
#ifdef YAEP_VERIF
  sb_init (&trace_sets);
  if (getenv ("YV_NOSINK") == NULL) yaep_verif_sink = sink;
#endif
  clear_expect ();
  lib0 = yv_lib_live;
  while (fgets (line, sizeof line, stdin) != NULL)
    {
      char *p = line, *tok;
      size_t l = strlen (line);
      while (l > 0 && (line[l - 1] == '\n' || line[l - 1] == '\r')) line[--l] = 0;
      if (l == 0 || line[0] == '#') continue;
      tok = strsep (&p, " ");
      if (strcmp (tok, "G") == 0)
	{
	  snprintf (gid, sizeof gid, "%s", p ? p : "-");
	  snprintf (yv_where, sizeof yv_where, "free g=%s", gid);
	  free_harness_grammar ();
	  clear_expect ();
	  /* keep the object: a new definition on a used object must behave as on a fresh one (C14);
	     every 7th grammar gets a brand-new object so that both paths are taken. */
	  if (cur != NULL && (n_defs % 7) == 6) { LIB (G_FREE (cur)); cur = NULL; }
	  cur_defined = 0;
	}
      else if (strcmp (tok, "T") == 0)
	{
	  char *n = strsep (&p, " ");
	  terms[nterms].name = yv_strdup (n);
	  terms[nterms].code = atoi (p);
	  nterms++;
	}
      else if (strcmp (tok, "R") == 0)
	{
	  struct hrule *r = &rules[nrules++];
	  char *a;
	  int k;
	  r->lhs = yv_strdup (strsep (&p, " "));
	  a = strsep (&p, " ");
	  r->an = strcmp (a, "-") == 0 ? NULL : yv_strdup (strcmp (a, "\"\"") == 0 ? "" : a);
	  r->cost = atoi (strsep (&p, " "));
	  r->nrhs = atoi (strsep (&p, " "));
	  for (k = 0; k < r->nrhs; k++) r->rhs[k] = yv_strdup (strsep (&p, " "));
	  r->ntr = atoi (strsep (&p, " "));
	  for (k = 0; k < r->ntr; k++) { a = strsep (&p, " "); r->tr[k] = strcmp (a, "N") == 0 ? -1 : atoi (a); }
	}
      else if (strcmp (tok, "D") == 0)
	{
	  int strict = atoi (strsep (&p, " "));
	  do_define (strict, p);
	}
      else if (strcmp (tok, "DT") == 0)
	{
	  int strict = atoi (strsep (&p, " "));
	  char *list = strsep (&p, " ");
	  do_define_text (strict, list, p ? p : "");
	}
      else if (strcmp (tok, "W") == 0)
	{
	  int k;
	  clear_expect ();
	  snprintf (wid, sizeof wid, "%s", strsep (&p, " "));
	  ntoks = atoi (strsep (&p, " "));
	  for (k = 0; k < ntoks; k++) toks_in[k] = atoi (strsep (&p, " "));
	}
      else if (strcmp (tok, "X") == 0)
	{
	  char *kv;
	  while ((kv = strsep (&p, " ")) != NULL)
	    {
	      char *eq = strchr (kv, '=');
	      int v;
	      if (eq == NULL) continue;
	      *eq = 0; v = atoi (eq + 1);
	      if (strcmp (kv, "sent") == 0) x_sent = v;
	      else if (strcmp (kv, "fo") == 0) x_fo = v;
	      else if (strcmp (kv, "nd") == 0) x_nd = v;
	      else if (strcmp (kv, "nt") == 0) x_nt = v;
	      else if (strcmp (kv, "rc") == 0) x_rc = v;
	      else if (strcmp (kv, "trees") == 0) x_have_trees = v;
	      else if (strcmp (kv, "repairs") == 0) x_have_repairs = v;
	      else if (strcmp (kv, "cap") == 0) x_cap = v;
	      else if (kv[0] == 'r' && kv[1] == 'c' && isdigit ((unsigned char) kv[2]) && strchr (kv, '_') != NULL)
		{
		  int k = atoi (kv + 2), m = atoi (strchr (kv, '_') + 1);
		  if (k >= 0 && k < 16 && m >= 0 && m < 16) x_rcost[k][m] = v;
		}
	    }
	}
      else if (strcmp (tok, "t") == 0 || strcmp (tok, "m") == 0)
	{
	  if (n_exp < MAXEXP) { exp_t[n_exp] = yv_strdup (p); exp_min[n_exp] = tok[0] == 'm'; n_exp++; }
	}
      else if (strcmp (tok, "r") == 0)
	{
	  int ig = atoi (strsep (&p, " "));
	  if (n_exp_r < MAXEXP) { exp_r[n_exp_r] = yv_strdup (p); exp_r_ign[n_exp_r] = ig; n_exp_r++; }
	}
      else if (strcmp (tok, "P") == 0)
	{
	  int v[7], k;
	  for (k = 0; k < 7; k++) { char *a = strsep (&p, " "); v[k] = a ? atoi (a) : 0; }
	  do_parse (v[0], v[1], v[2], v[3], v[4], v[5], v[6]);
	}
    }
  snprintf (yv_where, sizeof yv_where, "final free");
  snprintf (cfgstr, sizeof cfgstr, "end");
  if (cur != NULL) { LIB (G_FREE (cur)); cur = NULL; }
  if (yv_lib_live != lib0) mismatch_i ("library heap blocks held after all objects and trees were freed", yv_lib_live - lib0, 0);
  printf ("{\"k\":\"summary\",\"lang\":\"%s\",\"parses\":%ld,\"defs\":%ld,\"mismatches\":%ld,\"sent\":%ld,\"nonsent\":%ld,\"hits\":%ld,\"hitdiff\":%ld,\"sets\":%ld,\"recs\":%ld,\"trees\":%ld}\n",
	  YV_LANG, n_parses, n_defs, n_mismatch, n_sent_parses, n_err_parses, n_hits, n_hit_diff, n_sets, n_recs, n_trees_cmp);
  return 0;
}
#endif /* YV_NO_MAIN */
