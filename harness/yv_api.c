/* yv_api: executes behaviours of the API-history machine spec/Api.tla (printed by TLC) against the
   real library: several live objects, arbitrary interleavings of create / configure / define /
   parse / free, comparing after every call what the specification says the call returns.
   Input: pools (DEF/T/R/END, TEXT, IN) followed by behaviours (B ... x).  */
#define YV_NO_MAIN
#include "yv_replay.c"

#define MAXDEF 32
#define MAXSLOT 8
#define MAXTREES 256

struct pdef { int nterms; struct hterm terms[MAXT]; int nrules; struct hrule rules[MAXR]; char *text; };
static struct pdef defs[MAXDEF];
static int inputs[64][64], ninput[64];
static GR slot[MAXSLOT];
static int shadow_err[MAXSLOT];
static char bid[64] = "-";
static long n_ops, n_beh;

struct kept { struct yaep_tree_node *root; char *ser; int mode; int nterm; int epoch; };
static struct kept kept[MAXTREES];
static int nkept;
static char epoch_mode[4096];
static long fault_k;		/* if > 0: the fault_k-th library allocation of the next create/define/parse fails */
static int poisoned[MAXSLOT];	/* the slot suffered an injected failure: only free is executed on it */
static long n_injected, injected_at_start;

static long fault_begin (void)
{
  long a0 = yv_lib_allocs;
  if (fault_k > 0) { yv_fail_at = yv_lib_allocs + fault_k; yv_fail_sticky = 0; }
  if (fault_k >= 100000000) { yv_sites_on = 1; yv_sites_n = 0; }	/* counting pass */
  return a0;
}
/* returns 1 if the failure was really injected during the call */
static int fault_end (long a0, int s, const char *what)
{
  int injected = fault_k > 0 && yv_lib_allocs >= yv_fail_at;
  if (fault_k > 0)
    {
      int i;
      printf ("{\"k\":\"fault\",\"g\":\"%s\",\"op\":%ld,\"what\":\"%s\",\"fk\":%ld,\"injected\":%d,\"allocs\":%ld,\"bt\":[", bid, n_ops, what, fault_k, injected, yv_lib_allocs - a0);
      for (i = 0; injected && i < yv_fail_bt_n; i++) printf ("%s\"%p\"", i ? "," : "", yv_fail_bt[i]);
      printf ("]");
      if (yv_sites_on)
	{
	  /* first and last request number of every distinct call site */
	  long a, b;
	  int first = 1;
	  printf (",\"sitek\":[");
	  for (a = 0; a < yv_sites_n; a++)
	    {
	      int is_first = 1, is_last = 1;
	      for (b = 0; b < a && is_first; b++) if (yv_sites[b] == yv_sites[a]) is_first = 0;
	      for (b = a + 1; b < yv_sites_n && is_last && !is_first; b++) if (yv_sites[b] == yv_sites[a]) is_last = 0;
	      if (is_first || is_last) { printf ("%s%ld", first ? "" : ",", a + 1); first = 0; }
	    }
	  printf ("]");
	  yv_sites_on = 0;
	}
      printf ("}\n");
      if (injected) { n_injected++; poisoned[s] = 1; }
    }
  yv_fail_at = 0; fault_k = 0;
  return injected;
}

static void load_def (int d)
{
  int i, j;
  free_harness_grammar ();
  nterms = defs[d].nterms;
  for (i = 0; i < nterms; i++) { terms[i].name = yv_strdup (defs[d].terms[i].name); terms[i].code = defs[d].terms[i].code; }
  nrules = defs[d].nrules;
  for (i = 0; i < nrules; i++)
    {
      rules[i] = defs[d].rules[i];
      rules[i].lhs = yv_strdup (rules[i].lhs);
      if (rules[i].an) rules[i].an = yv_strdup (rules[i].an);
      for (j = 0; j < rules[i].nrhs; j++) rules[i].rhs[j] = yv_strdup (rules[i].rhs[j]);
    }
}

static void check_err (int s, const char *what)
{
  int e;
  const char *m;
  LIB (e = G_ERRCODE (slot[s]));
  if (e != shadow_err[s]) { char b[96]; snprintf (b, sizeof b, "error_code after %s", what); mismatch_i (b, e, shadow_err[s]); }
  LIB (m = G_ERRMSG (slot[s]));
  if (m == NULL) mismatch ("error message", "NULL", "string");
  else if (shadow_err[s] != 0 && m[0] == 0) mismatch ("error message after a failure", "empty", "non-empty");
  else if (strlen (m) > 200) mismatch_i ("error message length", (long) strlen (m), 200);
}

static void free_kept (void)
{
  int i, nt;
  for (i = 0; i < nkept; i++)
    {
      char *again;
      snprintf (yv_where, sizeof yv_where, "reserialise b=%s tree=%d", bid, i);
      again = serialise (kept[i].root, &nt);
      if (strcmp (again, kept[i].ser) != 0) mismatch ("tree changed after later API calls / yaep_free_grammar", again, kept[i].ser);
      __real_free (again);
      termcb_calls = termcb_bad = 0;
      snprintf (yv_where, sizeof yv_where, "free_tree b=%s tree=%d", bid, i);
      chk_epoch = kept[i].epoch;
      if (kept[i].mode == 0) LIB (G_FREE_TREE (kept[i].root, pf_cb, termcb));
      else if (kept[i].mode == 1) LIB (G_FREE_TREE (kept[i].root, NULL, termcb));
      if (kept[i].mode != 2 && termcb_calls != kept[i].nterm) mismatch_i ("terminal callback calls in free_tree", termcb_calls, kept[i].nterm);
      chk_epoch = -1;
      __real_free (kept[i].ser);
    }
  nkept = 0;
}

static void api_parse (int s, int in, const char *mode, const char *rcs, int sent)
{
  struct yaep_tree_node *root = (struct yaep_tree_node *) 0x1;
  int amb = -99, rc, i, nt = 0;
  long a0;
  int m = strcmp (mode, "ff") == 0 ? 0 : strcmp (mode, "nn") == 0 ? 1 : strcmp (mode, "fn") == 0 ? 2 : 3;
  ntoks = ninput[in];
  for (i = 0; i < ntoks; i++) toks_in[i] = inputs[in][i];
  rd_i = 0; ncalls = 0; mp1 = mp2 = 0;
  cur_epoch++;
  chk_epoch = cur_epoch;
  if (cur_epoch < 4096) epoch_mode[cur_epoch] = (char) m;
  snprintf (cfgstr, sizeof cfgstr, "b=%s op=%ld parse s=%d in=%d mode=%s", bid, n_ops, s, in, mode);
  snprintf (yv_where, sizeof yv_where, "parse g=%s %s", bid, cfgstr);
  alarm (20);
  a0 = fault_begin ();
  if (m == 0) LIB (rc = G_PARSE (slot[s], read_tok_cb, syn_err_cb, pa_cb, pf_cb, &root, &amb));
  else if (m == 1) LIB (rc = G_PARSE (slot[s], read_tok_cb, syn_err_cb, NULL, NULL, &root, &amb));
  else if (m == 2) LIB (rc = G_PARSE (slot[s], read_tok_cb, syn_err_cb, pa_cb, NULL, &root, &amb));
  else LIB (rc = G_PARSE (slot[s], read_tok_cb, syn_err_cb, NULL, pf_cb, &root, &amb));
  alarm (0);
  snprintf (yv_where, sizeof yv_where, "after-parse g=%s %s", bid, cfgstr);
  n_parses++;
  if (fault_end (a0, s, "parse"))
    {
      if (rc != YAEP_NO_MEMORY) mismatch_i ("return code of a parse in which an allocation failed", rc, YAEP_NO_MEMORY);
      else { int e; LIB (e = G_ERRCODE (slot[s])); if (e != YAEP_NO_MEMORY) mismatch_i ("error_code after an allocation failure", e, YAEP_NO_MEMORY); }
      chk_epoch = -1;
      led_bad_free = led_double_free = led_null_free = led_foreign_free = 0;
      /* nodes built before the failure are unreachable for the caller; C17 promises a clean return, not
         their release: this parse's blocks are left out of the final ledger balance */
      if (cur_epoch < 4096) epoch_mode[cur_epoch] = 9;
      return;
    }
  if (!in_list (rcs, rc)) { char b[16]; sprintf (b, "%d", rc); mismatch ("parse return code", b, rcs); }
  if (rc != 0) shadow_err[s] = rc;
  check_err (s, "parse");
  if (rc != 0)
    {
      if (m != 3 && root != NULL) mismatch ("root after a failing parse", "non-NULL", "NULL");
      if (ncalls != 0 && rc != 0 && rc != YAEP_INVALID_TOKEN_CODE) mismatch_i ("syntax_error calls in a failing parse", ncalls, 0);
    }
  else
    {
      int rec;
      LIB (rec = G_SET_REC (slot[s], 0)); LIB (G_SET_REC (slot[s], rec));
      if (sent && ncalls != 0) mismatch_i ("syntax_error calls on a sentence", ncalls, 0);
      if (!sent && ncalls == 0) mismatch ("syntax_error calls on a non-sentence", "0", ">=1");
      if ((root != NULL) != (sent || rec != 0)) mismatch ("root nullness", root ? "non-NULL" : "NULL", sent || rec ? "non-NULL" : "NULL");
      if (root != NULL)
	{
	  /* everything reachable must be allocated by this parse and still live */
	  if (m == 0 || m == 2)
	    {
	      nds_reset ();
	      w_cycle = w_alt_under_alt = w_nil = w_err = w_alt = w_term = w_anode = w_dead = w_costbad = w_badattr = w_nullchild = 0;
	      w_nilp = w_errp = NULL; w_costflag = 0; w_check_live = 1; w_cap = 4;
	      walk (root);
	      if (w_dead) mismatch_i ("reachable node/name/children not inside a live parse_alloc block of this parse", w_dead, 0);
	      if (w_cycle) mismatch_i ("tree has a cycle", w_cycle, 0);
	    }
	  if (nkept < MAXTREES)
	    {
	      kept[nkept].root = root; kept[nkept].mode = m; kept[nkept].epoch = cur_epoch;
	      kept[nkept].ser = serialise (root, &nt); kept[nkept].nterm = nt;
	      nkept++;
	    }
	}
    }
  if (led_bad_free) { mismatch_i ("parse_free called with a pointer parse_alloc never returned", led_bad_free, 0); led_bad_free = 0; }
  if (led_double_free) { mismatch_i ("parse_free called twice for a block", led_double_free, 0); led_double_free = 0; }
  if (led_null_free) { mismatch_i ("parse_free called with NULL", led_null_free, 0); led_null_free = 0; }
  if (led_foreign_free) { mismatch_i ("parse_free called with a block of another parse", led_foreign_free, 0); led_foreign_free = 0; }
  chk_epoch = -1;
}

static void end_behaviour (long lib0)
{
  int s;
  snprintf (cfgstr, sizeof cfgstr, "b=%s end", bid);
  for (s = 0; s < MAXSLOT; s++)
    if (slot[s] != NULL) { snprintf (yv_where, sizeof yv_where, "free g=%s slot %d at end", bid, s); LIB (G_FREE (slot[s])); slot[s] = NULL; }
  free_kept ();
  if (led_bad_free || led_double_free || led_null_free || led_foreign_free)
    {
      mismatch_i ("invalid parse_free calls during yaep_free_tree (bad+double+NULL+foreign)", led_bad_free + led_double_free + led_null_free + led_foreign_free, 0);
      led_bad_free = led_double_free = led_null_free = led_foreign_free = 0;
    }
  {
    long live = 0; int i;
    /* blocks of alloc-only parses (mode fn) are the caller's to release: not counted */
    for (i = 0; i < nblks; i++) if (blks[i].live && blks[i].epoch < 4096 && epoch_mode[blks[i].epoch] == 0) live++;
    if (live != 0) mismatch_i ("parse_alloc blocks never released after all trees were freed", live, 0);
  }
  ledger_reset ();
  /* after an injected allocation failure the property (C17) promises a clean return and a freeable object,
     not that the abandoned work is released: the heap balance is only judged for undisturbed behaviours */
  if (n_injected == injected_at_start && yv_lib_live != lib0) mismatch_i ("library heap blocks held after all objects and trees were freed", yv_lib_live - lib0, 0);
}

int main (int argc, char **argv)
{
  static char line[1 << 20];
  int curdef = -1, i;
  long lib0;
  (void) argc; (void) argv;
  yv_install_handlers ();
  if (getenv ("YV_STDERR") == NULL && freopen ("/dev/null", "w", stderr) == NULL) {}
  sb_init (&trace_sets);
  if (getenv ("YV_NOSINK") == NULL) yaep_verif_sink = sink;
  clear_expect ();
  lib0 = yv_lib_live;
  while (fgets (line, sizeof line, stdin) != NULL)
    {
      char *p = line, *tok;
      size_t l = strlen (line);
      while (l > 0 && (line[l - 1] == '\n' || line[l - 1] == '\r')) line[--l] = 0;
      if (l == 0 || line[0] == '#') continue;
      tok = strsep (&p, " ");
      if (strcmp (tok, "DEF") == 0) { curdef = atoi (p); defs[curdef].nterms = defs[curdef].nrules = 0; }
      else if (strcmp (tok, "T") == 0)
	{
	  char *n = strsep (&p, " ");
	  defs[curdef].terms[defs[curdef].nterms].name = yv_strdup (n);
	  defs[curdef].terms[defs[curdef].nterms].code = atoi (p);
	  defs[curdef].nterms++;
	}
      else if (strcmp (tok, "R") == 0)
	{
	  struct hrule *r = &defs[curdef].rules[defs[curdef].nrules++];
	  char *a; int k;
	  r->lhs = yv_strdup (strsep (&p, " "));
	  a = strsep (&p, " ");
	  r->an = strcmp (a, "-") == 0 ? NULL : yv_strdup (a);
	  r->cost = atoi (strsep (&p, " "));
	  r->nrhs = atoi (strsep (&p, " "));
	  for (k = 0; k < r->nrhs; k++) r->rhs[k] = yv_strdup (strsep (&p, " "));
	  r->ntr = atoi (strsep (&p, " "));
	  for (k = 0; k < r->ntr; k++) { a = strsep (&p, " "); r->tr[k] = strcmp (a, "N") == 0 ? -1 : atoi (a); }
	}
      else if (strcmp (tok, "TEXT") == 0)
	{
	  int d = atoi (strsep (&p, " "));
	  size_t n = strlen (p) / 2, k;
	  defs[d].text = (char *) __real_malloc (n + 1);
	  for (k = 0; k < n; k++) { unsigned v; sscanf (p + 2 * k, "%2x", &v); defs[d].text[k] = (char) v; }
	  defs[d].text[n] = 0;
	}
      else if (strcmp (tok, "IN") == 0)
	{
	  int id = atoi (strsep (&p, " ")), k;
	  ninput[id] = atoi (strsep (&p, " "));
	  for (k = 0; k < ninput[id]; k++) inputs[id][k] = atoi (strsep (&p, " "));
	}
      else if (strcmp (tok, "B") == 0)
	{
	  snprintf (bid, sizeof bid, "%s", p); snprintf (gid, sizeof gid, "%s", p); snprintf (wid, sizeof wid, "-");
	  n_beh++; nkept = 0; cur_epoch = 0;
	  for (i = 0; i < MAXSLOT; i++) { slot[i] = NULL; shadow_err[i] = 0; poisoned[i] = 0; }
	  fault_k = 0; injected_at_start = n_injected;
	  lib0 = yv_lib_live;
	}
      else if (strcmp (tok, "c") == 0)
	{
	  int s = atoi (p);
	  n_ops++;
	  snprintf (cfgstr, sizeof cfgstr, "b=%s op=%ld create s=%d", bid, n_ops, s);
	  snprintf (yv_where, sizeof yv_where, "create g=%s %s", bid, cfgstr);
	  {
	    long a0 = fault_begin ();
	    LIB (slot[s] = G_CREATE ());
	    if (fault_end (a0, s, "create"))
	      {
		if (slot[s] != NULL) mismatch ("create in which an allocation failed", "object", "NULL");
		continue;
	      }
	  }
	  shadow_err[s] = 0;
	  if (slot[s] == NULL) mismatch ("create", "NULL", "object");
	  else
	    {
	      int v;
	      check_err (s, "create");
	      /* documented defaults, read through the setters (which return the previous value) */
	      LIB (v = G_SET_LA (slot[s], 1)); if (v != 1) mismatch_i ("default lookahead level", v, 1);
	      LIB (v = G_SET_ONE (slot[s], 1)); if (v != 1) mismatch_i ("default one_parse flag", v, 1);
	      LIB (v = G_SET_COST (slot[s], 0)); if (v != 0) mismatch_i ("default cost flag", v, 0);
	      LIB (v = G_SET_REC (slot[s], 1)); if (v != 1) mismatch_i ("default error recovery flag", v, 1);
	      LIB (v = G_SET_MATCH (slot[s], 3)); if (v != 3) mismatch_i ("default recovery match", v, 3);
	      LIB (v = G_SET_DEBUG (slot[s], 0)); if (v != 0) mismatch_i ("default debug level", v, 0);
	    }
	}
      else if (strcmp (tok, "f") == 0)
	{
	  int s = atoi (p);
	  n_ops++;
	  snprintf (cfgstr, sizeof cfgstr, "b=%s op=%ld free s=%d", bid, n_ops, s);
	  snprintf (yv_where, sizeof yv_where, "free g=%s %s", bid, cfgstr);
	  if (slot[s] != NULL) LIB (G_FREE (slot[s]));
	  slot[s] = NULL; poisoned[s] = 0;
	}
      else if (strcmp (tok, "K") == 0) fault_k = atol (p);
      else if (strcmp (tok, "s") == 0)
	{
	  int s = atoi (strsep (&p, " ")), v, prev, got = -12345;
	  char *which = strsep (&p, " ");
	  v = atoi (strsep (&p, " ")); prev = atoi (p);
	  n_ops++;
	  if (poisoned[s] || slot[s] == NULL) continue;
	  snprintf (cfgstr, sizeof cfgstr, "b=%s op=%ld set %s s=%d v=%d", bid, n_ops, which, s, v);
	  snprintf (yv_where, sizeof yv_where, "set g=%s %s", bid, cfgstr);
	  if (strcmp (which, "la") == 0) LIB (got = G_SET_LA (slot[s], v));
	  else if (strcmp (which, "one") == 0) LIB (got = G_SET_ONE (slot[s], v));
	  else if (strcmp (which, "cost") == 0) LIB (got = G_SET_COST (slot[s], v));
	  else if (strcmp (which, "rec") == 0) LIB (got = G_SET_REC (slot[s], v));
	  else if (strcmp (which, "match") == 0) LIB (got = G_SET_MATCH (slot[s], v));
	  else if (strcmp (which, "dbg") == 0) LIB (got = G_SET_DEBUG (slot[s], v));
	  if (got != prev) { char b[64]; snprintf (b, sizeof b, "setter %s returns previous value", which); mismatch_i (b, got, prev); }
	  check_err (s, "setter");
	}
      else if (strcmp (tok, "d") == 0)
	{
	  int s = atoi (strsep (&p, " ")), d = atoi (strsep (&p, " ")), strict = atoi (strsep (&p, " ")), text = atoi (strsep (&p, " ")), rc;
	  long a0;
	  n_ops++; n_defs++;
	  if (poisoned[s] || slot[s] == NULL) { fault_k = 0; continue; }
	  snprintf (cfgstr, sizeof cfgstr, "b=%s op=%ld define s=%d d=%d strict=%d text=%d", bid, n_ops, s, d, strict, text);
	  snprintf (yv_where, sizeof yv_where, "define g=%s %s", bid, cfgstr);
	  if (text)
	    {
	      char *copy = yv_strdup (defs[d].text);
	      a0 = fault_begin ();
	      LIB (rc = G_PARSEG (slot[s], strict, copy));
	      memset (copy, '#', strlen (copy)); __real_free (copy);
	    }
	  else
	    {
	      load_def (d);
	      build_def_buffers ();
	      a0 = fault_begin ();
	      LIB (rc = G_READ (slot[s], strict, rt_cb, rr_cb));
	      scribble_def_buffers ();
	    }
	  if (fault_end (a0, s, "define"))
	    {
	      if (rc != YAEP_NO_MEMORY) mismatch_i ("return code of a definition in which an allocation failed", rc, YAEP_NO_MEMORY);
	      else { int e; LIB (e = G_ERRCODE (slot[s])); if (e != YAEP_NO_MEMORY) mismatch_i ("error_code after an allocation failure", e, YAEP_NO_MEMORY); }
	      continue;
	    }
	  if (!in_list (p, rc)) { char b[16]; sprintf (b, "%d", rc); mismatch ("definition return code", b, p); }
	  if (rc != 0) shadow_err[s] = rc;
	  check_err (s, "definition");
	}
      else if (strcmp (tok, "p") == 0)
	{
	  int s = atoi (strsep (&p, " ")), in = atoi (strsep (&p, " "));
	  char *mode = strsep (&p, " "), *rcs = strsep (&p, " ");
	  int sent = atoi (p);
	  n_ops++;
	  if (poisoned[s] || slot[s] == NULL) { fault_k = 0; continue; }
	  api_parse (s, in, mode, rcs, sent);
	}
      else if (strcmp (tok, "x") == 0) end_behaviour (lib0);
    }
  printf ("{\"k\":\"summary\",\"lang\":\"%s\",\"parses\":%ld,\"defs\":%ld,\"mismatches\":%ld,\"ops\":%ld,\"behaviours\":%ld,\"hits\":%ld,\"sets\":%ld,\"recs\":%ld,\"trees\":0}\n",
	  YV_LANG, n_parses, n_defs, n_mismatch, n_ops, n_beh, n_hits, n_sets, n_recs);
  return 0;
}
