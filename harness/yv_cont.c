/* yv_cont: executes behaviours of spec/Cont.tla (printed by TLC) against the real container packages:
   hash table, object stack, variable-length object - the C macros/functions when built as C, the C++
   classes when built as C++.  After every operation the driver reads back ALL abstract contents
   (every universe element looked up; all bytes of the top object / vlo; every finished object's
   address and bytes) and compares them with what the specification says.  */
#include "yv_common.h"
#include "allocate.h"
#include "hashtab.h"
#include "objstack.h"
#include "vlobject.h"

#ifdef __cplusplus
#define HT_CREATE(a,sz,h,e)   new hash_table (a, sz, h, e)
#define HT_FIND(t,el,r)       (t)->find_entry (el, r)
#define HT_REMOVE(t,el)       (t)->remove_element_from_entry (el)
#define HT_EMPTY(t)           (t)->empty ()
#define HT_DELETE(t)          delete (t)
#define HT_SIZE(t)            (t)->size ()
#define HT_COUNT(t)           (t)->elements_number ()
typedef os *OST;
#define O_CREATE(o,a,sz)      (o) = new os (a, sz)
#define O_DELETE(o)           delete (o)
#define O_EMPTY(o)            (o)->empty ()
#define O_BEGIN(o)            (o)->top_begin ()
#define O_LENGTH(o)           (o)->top_length ()
#define O_ADD_MEMORY(o,p,n)   (o)->top_add_memory (p, n)
#define O_ADD_STRING(o,s)     (o)->top_add_string (s)
#define O_ADD_BYTE(o,b)       (o)->top_add_byte (b)
#define O_FINISH(o)           (o)->top_finish ()
#define O_EXPAND(o,n)         (o)->top_expand (n)
#define O_SHORTEN(o,n)        (o)->top_shorten (n)
#define O_NULLIFY(o)          (o)->top_nullify ()
typedef vlo *VLT;
#define V_CREATE(v,a,sz)      (v) = new vlo (a, sz)
#define V_DELETE(v)           delete (v)
#define V_BEGIN(v)            (v)->begin ()
#define V_LENGTH(v)           (v)->length ()
#define V_ADD_MEMORY(v,p,n)   (v)->add_memory (p, n)
#define V_ADD_STRING(v,s)     (v)->add_string (s)
#define V_ADD_BYTE(v,b)       (v)->add_byte (b)
#define V_EXPAND(v,n)         (v)->expand (n)
#define V_SHORTEN(v,n)        (v)->shorten (n)
#define V_NULLIFY(v)          (v)->nullify ()
#define V_TAILOR(v)           (v)->tailor ()
#else
#define HT_CREATE(a,sz,h,e)   create_hash_table (a, sz, h, e)
#define HT_FIND(t,el,r)       find_hash_table_entry (t, el, r)
#define HT_REMOVE(t,el)       remove_element_from_hash_table_entry (t, el)
#define HT_EMPTY(t)           empty_hash_table (t)
#define HT_DELETE(t)          delete_hash_table (t)
#define HT_SIZE(t)            hash_table_size (t)
#define HT_COUNT(t)           hash_table_elements_number (t)
typedef os_t OST;
#define O_CREATE(o,a,sz)      OS_CREATE (o, a, sz)
#define O_DELETE(o)           OS_DELETE (o)
#define O_EMPTY(o)            OS_EMPTY (o)
#define O_BEGIN(o)            OS_TOP_BEGIN (o)
#define O_LENGTH(o)           OS_TOP_LENGTH (o)
#define O_ADD_MEMORY(o,p,n)   OS_TOP_ADD_MEMORY (o, p, n)
#define O_ADD_STRING(o,s)     OS_TOP_ADD_STRING (o, s)
#define O_ADD_BYTE(o,b)       OS_TOP_ADD_BYTE (o, b)
#define O_FINISH(o)           OS_TOP_FINISH (o)
#define O_EXPAND(o,n)         OS_TOP_EXPAND (o, n)
#define O_SHORTEN(o,n)        OS_TOP_SHORTEN (o, n)
#define O_NULLIFY(o)          OS_TOP_NULLIFY (o)
typedef vlo_t VLT;
#define V_CREATE(v,a,sz)      VLO_CREATE (v, a, sz)
#define V_DELETE(v)           VLO_DELETE (v)
#define V_BEGIN(v)            VLO_BEGIN (v)
#define V_LENGTH(v)           VLO_LENGTH (v)
#define V_ADD_MEMORY(v,p,n)   VLO_ADD_MEMORY (v, p, n)
#define V_ADD_STRING(v,s)     VLO_ADD_STRING (v, s)
#define V_ADD_BYTE(v,b)       VLO_ADD_BYTE (v, b)
#define V_EXPAND(v,n)         VLO_EXPAND (v, n)
#define V_SHORTEN(v,n)        VLO_SHORTEN (v, n)
#define V_NULLIFY(v)          VLO_NULLIFY (v)
#define V_TAILOR(v)           VLO_TAILOR (v)
#endif

static char bid[64] = "-", opstr[128] = "-";
static long n_ops, n_mis, n_beh;

static void mism (const char *what, const char *got, const char *exp)
{
  n_mis++;
  printf ("{\"k\":\"mismatch\",\"lang\":\"%s\",\"g\":\"%s\",\"w\":\"-\",\"cfg\":\"%s\",\"what\":\"%s\",\"got\":\"%s\",\"exp\":\"%s\"}\n", YV_LANG, bid, opstr, what, got, exp);
}
static void mism_i (const char *what, long got, long exp)
{
  char a[32], b[32];
  sprintf (a, "%ld", got); sprintf (b, "%ld", exp);
  mism (what, a, b);
}

/* ---------- hash table ---------- */
#define NU 32
static int elems[NU];		/* element k is &elems[k] */
static unsigned hashval[NU];
static unsigned h_fun (hash_table_entry_t e) { return hashval[(const int *) e - elems]; }
static int eq_fun (hash_table_entry_t a, hash_table_entry_t b) { return a == b; }
static hash_table_t ht;
static int nuniv;

static void h_observe (char *p)
{
  long size = atol (strsep (&p, " ")), count = atol (strsep (&p, " "));
  int present[NU], k;
  char got[128] = "", exp[128] = "";
  memset (present, 0, sizeof present);
  while (p != NULL && *p) { char *a = strsep (&p, ","); if (*a) present[atoi (a)] = 1; }
  for (k = 1; k <= nuniv; k++)
    {
      hash_table_entry_t *e;
      int found;
      LIB (e = HT_FIND (ht, &elems[k], 0));
      found = (*e == (hash_table_entry_t) &elems[k]);
      if (*e != NULL && *e != (hash_table_entry_t) &elems[k] && *e != (hash_table_entry_t) 1)
	mism_i ("find returned the entry of another element", (long) ((const int *) *e - elems), k);
      if (found != present[k]) { sprintf (got, "element %d %s", k, found ? "found" : "not found"); sprintf (exp, "%s", present[k] ? "member" : "not a member"); mism ("find finds exactly the elements inserted and not removed", got, exp); }
    }
  if ((long) HT_SIZE (ht) != size) mism_i ("hash table size", (long) HT_SIZE (ht), size);
  if ((long) HT_COUNT (ht) != count) mism_i ("hash table elements number", (long) HT_COUNT (ht), count);
}

/* ---------- byte helpers ---------- */
static unsigned char chunk[4096];
static void make_chunk (int b, int n) { int i; for (i = 1; i <= n; i++) chunk[i - 1] = (unsigned char) ((b * 7 + i) % 251 + 1); }
static int hexcmp (const unsigned char *p, long len, const char *hex)
{
  long i, n = (long) strlen (hex) / 2;
  if (n != len) return 1;
  for (i = 0; i < n; i++) { unsigned v; sscanf (hex + 2 * i, "%2x", &v); if (p[i] != v) return 1; }
  return 0;
}

/* ---------- object stack ---------- */
static OST ost;
static int os_live;
struct finobj { unsigned char *addr; long len; unsigned char *copy; };
static struct finobj fins[4096];
static int nfins;
static long os_lib0;

static void o_check_finished (void)
{
  int i;
  for (i = 0; i < nfins; i++)
    if (fins[i].len > 0 && memcmp (fins[i].addr, fins[i].copy, fins[i].len) != 0)
      { mism_i ("a finished object was altered", i, -1); break; }
}
static void o_observe_top (const char *hex)
{
  long len;
  LIB (len = (long) O_LENGTH (ost));
  if (len != (long) strlen (hex) / 2) mism_i ("top object length", len, (long) strlen (hex) / 2);
  else if (len > 0 && hexcmp ((unsigned char *) O_BEGIN (ost), len, hex)) mism ("top object does not hold exactly the bytes appended", "differs", hex);
  o_check_finished ();
}

/* ---------- vlo ---------- */
static VLT vl;
static int vl_live;
static void v_observe (const char *hex)
{
  long len;
  LIB (len = (long) V_LENGTH (vl));
  if (len != (long) strlen (hex) / 2) mism_i ("vlo length", len, (long) strlen (hex) / 2);
  else if (len > 0 && hexcmp ((unsigned char *) V_BEGIN (vl), len, hex)) mism ("vlo does not hold exactly the bytes appended minus those shortened", "differs", hex);
}

static YaepAllocator *al;

static void end_behaviour (long lib0)
{
  snprintf (yv_where, sizeof yv_where, "end g=%s", bid);
  if (ht != NULL) { LIB (HT_DELETE (ht)); ht = NULL; }
  if (os_live) { LIB (O_DELETE (ost)); os_live = 0; }
  if (vl_live) { LIB (V_DELETE (vl)); vl_live = 0; }
  while (nfins > 0) __real_free (fins[--nfins].copy);
  if (yv_lib_live != lib0) mism_i ("container memory still held after delete", yv_lib_live - lib0, 0);
}

int main (void)
{
  static char line[1 << 16];
  long lib0 = 0;
  yv_install_handlers ();
  if (getenv ("YV_STDERR") == NULL && freopen ("/dev/null", "w", stderr) == NULL) {}
  al = yaep_alloc_new (NULL, NULL, NULL, NULL);
  while (fgets (line, sizeof line, stdin) != NULL)
    {
      char *p = line, *tok;
      size_t l = strlen (line);
      while (l > 0 && (line[l - 1] == '\n' || line[l - 1] == '\r')) line[--l] = 0;
      if (l == 0) continue;
      tok = strsep (&p, " ");
      if (strcmp (tok, "G") == 0) continue;
      if (tok[0] != 'o' || strcmp (tok, "obs") == 0 || 1) { snprintf (opstr, sizeof opstr, "op=%ld %s %.60s", n_ops, tok, p ? p : ""); snprintf (yv_where, sizeof yv_where, "cont g=%s %s", bid, opstr); }
      if (strcmp (tok, "B") == 0) { snprintf (bid, sizeof bid, "%s", p); n_beh++; lib0 = yv_lib_live; nuniv = 0; alarm (10); /* a lookup that never returns is an event, not a hang of the check */ }
      else if (strcmp (tok, "H") == 0) { int k = atoi (strsep (&p, " ")); hashval[k] = (unsigned) atol (p); if (k > nuniv) nuniv = k; }
      else if (strcmp (tok, "x") == 0) { end_behaviour (lib0); alarm (0); }
      /* ---- hash ---- */
      else if (strcmp (tok, "hcreate") == 0) { n_ops++; LIB (ht = HT_CREATE (al, atol (p), h_fun, eq_fun)); }
      else if (strcmp (tok, "hinsert") == 0)
	{
	  int e = atoi (strsep (&p, " ")), was = atoi (p);
	  hash_table_entry_t *ent;
	  n_ops++;
	  LIB (ent = HT_FIND (ht, &elems[e], 1));
	  if ((*ent == (hash_table_entry_t) &elems[e]) != was) mism_i ("insert: element already present?", *ent == (hash_table_entry_t) &elems[e], was);
	  /* the documented contract: the entry of the element, or an EMPTY entry in which it can be placed (the library's own
	     callers test the entry for NULL to tell the two cases apart) */
	  if (!was && *ent != NULL) mism_i ("insert: the entry reserved for an absent element is not empty", 1, 0);
	  *ent = (hash_table_entry_t) &elems[e];
	}
      else if (strcmp (tok, "hfind") == 0)
	{
	  int e = atoi (strsep (&p, " ")), was = atoi (p);
	  hash_table_entry_t *ent;
	  n_ops++;
	  LIB (ent = HT_FIND (ht, &elems[e], 0));
	  if ((*ent == (hash_table_entry_t) &elems[e]) != was) mism_i ("find result", *ent == (hash_table_entry_t) &elems[e], was);
	  if (!was && *ent != NULL) mism_i ("find: the entry returned for an absent element is not empty", 1, 0);
	}
      else if (strcmp (tok, "hremove") == 0) { n_ops++; LIB (HT_REMOVE (ht, &elems[atoi (p)])); }
      else if (strcmp (tok, "hempty") == 0) { n_ops++; LIB (HT_EMPTY (ht)); }
      else if (strcmp (tok, "obs") == 0) h_observe (p);
      /* ---- object stack ---- */
      else if (strcmp (tok, "ocreate") == 0) { n_ops++; os_lib0 = yv_lib_live; LIB (O_CREATE (ost, al, atol (p))); os_live = 1; }
      else if (strcmp (tok, "oaddmem") == 0) { int n = atoi (strsep (&p, " ")), b = atoi (p); n_ops++; make_chunk (b, n); LIB (O_ADD_MEMORY (ost, chunk, n)); }
      else if (strcmp (tok, "oexpand") == 0)
	{
	  int n = atoi (strsep (&p, " ")), b = atoi (p);
	  long before;
	  n_ops++; make_chunk (b, n);
	  LIB (before = (long) O_LENGTH (ost));
	  LIB (O_EXPAND (ost, n));
	  memcpy ((char *) O_BEGIN (ost) + before, chunk, n);	/* the added bytes are undefined: the caller fills them */
	}
      else if (strcmp (tok, "oaddbyte") == 0) { int n = atoi (strsep (&p, " ")), b = atoi (p); (void) n; n_ops++; make_chunk (b, 1); LIB (O_ADD_BYTE (ost, chunk[0])); }
      else if (strcmp (tok, "oaddstring") == 0) { int n = atoi (strsep (&p, " ")), b = atoi (p); n_ops++; make_chunk (b, n); chunk[n] = 0; LIB (O_ADD_STRING (ost, (char *) chunk)); }
      else if (strcmp (tok, "oshorten") == 0) { n_ops++; LIB (O_SHORTEN (ost, (size_t) atol (p))); }
      else if (strcmp (tok, "onullify") == 0) { n_ops++; LIB (O_NULLIFY (ost)); }
      else if (strcmp (tok, "ofinish") == 0)
	{
	  long len;
	  n_ops++;
	  LIB (len = (long) O_LENGTH (ost));
	  fins[nfins].addr = (unsigned char *) O_BEGIN (ost); fins[nfins].len = len;
	  fins[nfins].copy = (unsigned char *) __real_malloc (len + 1); memcpy (fins[nfins].copy, fins[nfins].addr, len);
	  nfins++;
	  LIB (O_FINISH (ost));
	}
      else if (strcmp (tok, "oempty") == 0) { n_ops++; LIB (O_EMPTY (ost)); while (nfins > 0) __real_free (fins[--nfins].copy); }
      else if (strcmp (tok, "otop") == 0) o_observe_top (p ? p : "");
      else if (strcmp (tok, "onfin") == 0) { if (nfins != atoi (p)) mism_i ("driver bookkeeping of finished objects", nfins, atoi (p)); }
      else if (strcmp (tok, "onseg") == 0) { if (yv_lib_live - os_lib0 != atol (p)) mism_i ("object stack segments allocated", yv_lib_live - os_lib0, atol (p)); }
      /* ---- vlo ---- */
      else if (strcmp (tok, "vcreate") == 0) { n_ops++; LIB (V_CREATE (vl, al, atol (p))); vl_live = 1; }
      else if (strcmp (tok, "vaddmem") == 0) { int n = atoi (strsep (&p, " ")), b = atoi (p); n_ops++; make_chunk (b, n); LIB (V_ADD_MEMORY (vl, chunk, n)); }
      else if (strcmp (tok, "vexpand") == 0)
	{
	  int n = atoi (strsep (&p, " ")), b = atoi (p);
	  long before;
	  n_ops++; make_chunk (b, n);
	  LIB (before = (long) V_LENGTH (vl));
	  LIB (V_EXPAND (vl, n));
	  memcpy ((char *) V_BEGIN (vl) + before, chunk, n);
	}
      else if (strcmp (tok, "vaddbyte") == 0) { int n = atoi (strsep (&p, " ")), b = atoi (p); (void) n; n_ops++; make_chunk (b, 1); LIB (V_ADD_BYTE (vl, chunk[0])); }
      else if (strcmp (tok, "vaddstring") == 0) { int n = atoi (strsep (&p, " ")), b = atoi (p); n_ops++; make_chunk (b, n); chunk[n] = 0; LIB (V_ADD_STRING (vl, (char *) chunk)); }
      else if (strcmp (tok, "vshorten") == 0) { n_ops++; LIB (V_SHORTEN (vl, (size_t) atol (p))); }
      else if (strcmp (tok, "vnullify") == 0) { n_ops++; LIB (V_NULLIFY (vl)); }
      else if (strcmp (tok, "vtailor") == 0) { n_ops++; LIB (V_TAILOR (vl)); }
      else if (strcmp (tok, "vbytes") == 0) v_observe (p ? p : "");
    }
  printf ("{\"k\":\"summary\",\"lang\":\"%s\",\"parses\":0,\"defs\":0,\"mismatches\":%ld,\"ops\":%ld,\"behaviours\":%ld}\n", YV_LANG, n_mis, n_ops, n_beh);
  return 0;
}
