/* Common pieces of the yaep verification harnesses.  One source, built twice:
   as C against libyaep (functions yaep_*) and as C++ against libyaep++ (class yaep).
   The harness only transports data: it defines grammars, runs parses, serialises what
   comes back into canonical strings and compares them with the strings the TLA+
   specification produced (or logs them for TLC to validate). */
#ifndef YV_COMMON_H
#define YV_COMMON_H
#include <stdio.h>
#include <stdlib.h>
#include <string.h>
#include <stdint.h>
#include <signal.h>
#include <unistd.h>
#include "yaep.h"
#ifdef YAEP_VERIF
#include "yaep_verif.h"
#endif

#ifdef __cplusplus
typedef yaep *GR;
#define G_CREATE()            gx_create ()
#define G_FREE(g)             delete (g)
#define G_ERRCODE(g)          (g)->error_code ()
#define G_ERRMSG(g)           (g)->error_message ()
#define G_READ(g,s,rt,rr)     (g)->read_grammar (s, rt, rr)
#define G_PARSEG(g,s,d)       (g)->parse_grammar (s, d)
#define G_SET_LA(g,v)         (g)->set_lookahead_level (v)
#define G_SET_DEBUG(g,v)      (g)->set_debug_level (v)
#define G_SET_ONE(g,v)        (g)->set_one_parse_flag (v)
#define G_SET_COST(g,v)       (g)->set_cost_flag (v)
#define G_SET_REC(g,v)        (g)->set_error_recovery_flag (v)
#define G_SET_MATCH(g,v)      (g)->set_recovery_match (v)
#define G_PARSE(g,rt,se,pa,pf,root,amb) (g)->parse (rt, se, pa, pf, root, amb)
#define G_FREE_TREE(r,pf,cb)  yaep::free_tree (r, pf, cb)
#define YV_LANG "c++"
/* class yaep's constructor stores NULL when creation fails; there is no way to ask,
   so the adapter looks at the error code of a NULL object only through this helper. */
struct yv_peek { struct grammar *grammar; };
static GR gx_create (void)
{
  yaep *e = new yaep ();
  if (((struct yv_peek *) (void *) e)->grammar == NULL) { delete e; return NULL; }
  return e;
}
#else
typedef struct grammar *GR;
#define G_CREATE()            yaep_create_grammar ()
#define G_FREE(g)             yaep_free_grammar (g)
#define G_ERRCODE(g)          yaep_error_code (g)
#define G_ERRMSG(g)           yaep_error_message (g)
#define G_READ(g,s,rt,rr)     yaep_read_grammar (g, s, rt, rr)
#define G_PARSEG(g,s,d)       yaep_parse_grammar (g, s, d)
#define G_SET_LA(g,v)         yaep_set_lookahead_level (g, v)
#define G_SET_DEBUG(g,v)      yaep_set_debug_level (g, v)
#define G_SET_ONE(g,v)        yaep_set_one_parse_flag (g, v)
#define G_SET_COST(g,v)       yaep_set_cost_flag (g, v)
#define G_SET_REC(g,v)        yaep_set_error_recovery_flag (g, v)
#define G_SET_MATCH(g,v)      yaep_set_recovery_match (g, v)
#define G_PARSE(g,rt,se,pa,pf,root,amb) yaep_parse (g, rt, se, pa, pf, root, amb)
#define G_FREE_TREE(r,pf,cb)  yaep_free_tree (r, pf, cb)
#define YV_LANG "c"
#endif

/* ------------------------------------------------------------------ */
/* Library allocation ledger: the link step wraps malloc & co.          */
/* ------------------------------------------------------------------ */
#ifdef __cplusplus
extern "C" {
#endif
void *__real_malloc (size_t);
void *__real_calloc (size_t, size_t);
void *__real_realloc (void *, size_t);
void __real_free (void *);
void *__wrap_malloc (size_t);
void *__wrap_calloc (size_t, size_t);
void *__wrap_realloc (void *, size_t);
void __wrap_free (void *);
#ifdef __cplusplus
}
#endif

static long yv_lib_live;	/* blocks currently held that were allocated inside library calls */
static long yv_lib_allocs;	/* allocation requests seen inside library calls */
static int yv_in_lib;		/* >0 while control is inside a library call */
static long yv_fail_at;		/* if >0: the yv_fail_at-th request inside the library fails */
static int yv_fail_sticky;	/* all later requests fail too */

/* small open hash set of library-owned block addresses */
#define YV_LSZ (1 << 21)	/* results with hundreds of thousands of nodes allocated by the default allocator must fit */
static void *yv_lset[YV_LSZ];
static int yv_lset_find (void *p, int ins)
{
  size_t h = ((size_t) p >> 4) * 2654435761u % YV_LSZ, i;
  for (i = 0; i < YV_LSZ; i++, h = (h + 1) % YV_LSZ)
    {
      if (yv_lset[h] == p) return (int) h;
      if (yv_lset[h] == NULL) { if (ins) { yv_lset[h] = p; return (int) h; } return -1; }
    }
  return -1;
}
static void yv_lset_del (void *p)
{
  int h = yv_lset_find (p, 0), j;
  void *q;
  if (h < 0) return;
  yv_lset[h] = NULL;
  /* re-insert the cluster that follows */
  for (j = (h + 1) % YV_LSZ; (q = yv_lset[j]) != NULL; j = (j + 1) % YV_LSZ)
    { yv_lset[j] = NULL; yv_lset_find (q, 1); }
}
#include <execinfo.h>
static void *yv_fail_bt[12];	/* return addresses at the moment the failure was injected */
static int yv_fail_bt_n;
/* counting pass: the call site (hash of the callers' return addresses) of every request after yv_sites_from, so that the driver
   can fail each distinct site at least at its first and last request */
static int yv_sites_on;
static long yv_sites_from;
static unsigned long *yv_sites;
static long yv_sites_n, yv_sites_cap;
static void yv_record_site (void)
{
  void *bt[10];
  int save = yv_in_lib, n, i;
  unsigned long h = 1469598103934665603UL;
  yv_in_lib = 0;
  n = backtrace (bt, 10);
  for (i = 3; i < n && i < 8; i++) { h ^= (unsigned long) bt[i]; h *= 1099511628211UL; }
  if (yv_sites_n == yv_sites_cap)
    { yv_sites_cap = yv_sites_cap ? yv_sites_cap * 2 : 4096; yv_sites = (unsigned long *) __real_realloc (yv_sites, yv_sites_cap * sizeof (unsigned long)); }
  yv_sites[yv_sites_n++] = h;
  yv_in_lib = save;
}
static int yv_should_fail (void)
{
  yv_lib_allocs++;
  if (yv_sites_on) yv_record_site ();
  if (yv_fail_at > 0 && (yv_lib_allocs == yv_fail_at || (yv_fail_sticky && yv_lib_allocs > yv_fail_at)))
    {
      if (yv_lib_allocs == yv_fail_at)
	{
	  int save = yv_in_lib, i, n;
	  char buf[512];
	  yv_in_lib = 0;
	  yv_fail_bt_n = backtrace (yv_fail_bt, 12);
	  n = snprintf (buf, sizeof buf, "{\"k\":\"inject\",\"bt\":[");
	  for (i = 0; i < yv_fail_bt_n && n < 480; i++) n += snprintf (buf + n, sizeof buf - n, "%s\"%p\"", i ? "," : "", yv_fail_bt[i]);
	  n += snprintf (buf + n, sizeof buf - n, "]}\n");
	  fflush (stdout);
	  if (write (1, buf, n) < 0) {}
	  yv_in_lib = save;
	}
      return 1;
    }
  return 0;
}
#ifdef __cplusplus
extern "C" {
#endif
void *__wrap_malloc (size_t n)
{
  void *p;
  if (!yv_in_lib) return __real_malloc (n);
  if (yv_should_fail ()) return NULL;
  p = __real_malloc (n);
  if (p != NULL) { yv_lset_find (p, 1); yv_lib_live++; }
  return p;
}
void *__wrap_calloc (size_t a, size_t b)
{
  void *p;
  if (!yv_in_lib) return __real_calloc (a, b);
  if (yv_should_fail ()) return NULL;
  p = __real_calloc (a, b);
  if (p != NULL) { yv_lset_find (p, 1); yv_lib_live++; }
  return p;
}
void *__wrap_realloc (void *q, size_t n)
{
  void *p;
  int mine = q != NULL && yv_lset_find (q, 0) >= 0;
  if (!yv_in_lib && !mine) return __real_realloc (q, n);
  if (yv_in_lib && yv_should_fail ()) return NULL;
  if (mine) { yv_lset_del (q); yv_lib_live--; }
  p = __real_realloc (q, n);
  if (p != NULL && n != 0) { yv_lset_find (p, 1); yv_lib_live++; }
  else if (p == NULL && n != 0 && mine) { yv_lset_find (q, 1); yv_lib_live++; }
  return p;
}
void __wrap_free (void *p)
{
  if (p != NULL && yv_lset_find (p, 0) >= 0) { yv_lset_del (p); yv_lib_live--; }
  __real_free (p);
}
#ifdef __cplusplus
}
#endif
#define LIB(stmt) do { yv_in_lib++; stmt; yv_in_lib--; } while (0)

/* ------------------------------------------------------------------ */
/* Crash reporting: a crash is an event, not a truncated file.          */
/* ------------------------------------------------------------------ */
static char yv_where[256] = "start";
static void yv_on_signal (int sig)
{
  char buf[400];
  int n = snprintf (buf, sizeof buf, "{\"e\":\"Abort\",\"sig\":%d,\"at\":\"%s\"}\n", sig, yv_where);
  if (write (1, buf, n) < 0) {}
  _exit (70);
}
static void yv_install_handlers (void)
{
  signal (SIGSEGV, yv_on_signal);
  signal (SIGABRT, yv_on_signal);
  signal (SIGBUS, yv_on_signal);
  signal (SIGFPE, yv_on_signal);
  signal (SIGALRM, yv_on_signal);
  setvbuf (stdout, NULL, _IOLBF, 0);
}
#ifdef __cplusplus
extern "C"
#endif
const char *__asan_default_options (void) { return "detect_leaks=0:abort_on_error=1:handle_abort=0:allocator_may_return_null=1"; }
#ifdef __cplusplus
extern "C"
#endif
const char *__ubsan_default_options (void) { return "halt_on_error=1:abort_on_error=1:print_stacktrace=1"; }

/* ------------------------------------------------------------------ */
/* Growable string                                                      */
/* ------------------------------------------------------------------ */
struct sb { char *s; size_t n, cap; };
static void sb_init (struct sb *b) { b->cap = 256; b->n = 0; b->s = (char *) __real_malloc (b->cap); b->s[0] = 0; }
static void sb_add (struct sb *b, const char *t)
{
  size_t l = strlen (t);
  if (b->n + l + 1 > b->cap)
    {
      while (b->n + l + 1 > b->cap) b->cap *= 2;
      b->s = (char *) __real_realloc (b->s, b->cap);
    }
  memcpy (b->s + b->n, t, l + 1);
  b->n += l;
}
static void sb_free (struct sb *b) { __real_free (b->s); b->s = NULL; }
static char *yv_strdup (const char *s)
{
  size_t l = strlen (s) + 1;
  char *r = (char *) __real_malloc (l);
  memcpy (r, s, l);
  return r;
}

#endif
