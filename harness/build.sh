#!/bin/bash
# Build libyaep / libyaep++ from /repo's CURRENT working tree with hooks on, plus harnesses.
# usage: build.sh OUTDIR [plain|asan] ; env REPO (default /repo), YV_GUARD (default on)
set -e
OUT=$1; MODE=${2:-plain}; REPO=${REPO:-/repo}; H=$(cd "$(dirname "$0")" && pwd)
mkdir -p "$OUT"
GUARD="-DYAEP_VERIF"; [ "${YV_GUARD:-on}" = off ] && GUARD=""
COMMON="-g -I$OUT -I$REPO/src -I$H $GUARD -w"
if [ "$MODE" = asan ]; then
  CC="clang"; CXX="clang++"
  SAN="-O1 -no-pie -fno-pie -fsanitize=address,undefined -fno-sanitize=pointer-overflow,function -fno-sanitize-recover=undefined -fno-omit-frame-pointer"
else
  CC="gcc"; CXX="g++"; SAN="-O1 -no-pie -fno-pie"
fi
bison -o "$OUT/sgramm.c" "$REPO/src/sgramm.y" 2>/dev/null
pids=()
for f in allocate hashtab objstack vlobject yaep; do
  $CC $COMMON $SAN -c "$REPO/src/$f.c" -o "$OUT/c_$f.o" & pids+=($!)
done
for f in hashtab objstack vlobject yaep; do
  $CXX $COMMON $SAN -std=c++11 -c "$REPO/src/$f.cpp" -o "$OUT/x_$f.o" & pids+=($!)
done
for p in "${pids[@]}"; do wait $p; done
ar rcs "$OUT/libyaep.a" $OUT/c_allocate.o $OUT/c_hashtab.o $OUT/c_objstack.o $OUT/c_vlobject.o $OUT/c_yaep.o
ar rcs "$OUT/libyaepxx.a" $OUT/c_allocate.o $OUT/x_hashtab.o $OUT/x_objstack.o $OUT/x_vlobject.o $OUT/x_yaep.o
WRAP="-Wl,--wrap=malloc,--wrap=calloc,--wrap=realloc,--wrap=free"
pids=()
for h in ${HARNESSES:-yv_replay yv_api yv_cont}; do
  [ -f "$H/$h.c" ] || continue
  $CC  $COMMON $SAN -x c   "$H/$h.c" -x none "$OUT/libyaep.a"   $WRAP -o "$OUT/$h"   & pids+=($!)
  $CXX $COMMON $SAN -std=c++11 -x c++ "$H/$h.c" -x none "$OUT/libyaepxx.a" $WRAP -o "$OUT/${h}xx" & pids+=($!)
done
for p in "${pids[@]}"; do wait $p; done
echo built "$OUT" "$MODE"
